"""srflp - single-row facility layout  (/repo/ddo/examples/srflp/{main,io_utils,model}.rs)

Format (io_utils.rs; empty lines skipped, ',' and blanks both separate): n, then the n department lengths, then the
n x n flow matrix.  NAMING RULE: when the *path* of the file contains "Cl" the instance is a "clearance" instance:
a clearance of 10 is required between adjacent departments (the reader adds 10 to every length, which is the same
thing for centre-to-centre distances).  exlab's work directory never contains "Cl"; only the file name may.
Problem: order the departments on a line; cost = sum over pairs i<j of flow[i][j] * distance between the CENTRES of
i and j.  Printed: `Objective:  <min cost>` as an f64 printed with `{}` ("13", "13.5"): the model minimises the cost
without the order-independent part sum_{i<j} (l_i+l_j)/2 * flow[i][j], main.rs negates the solver value and adds that
constant back, so the full (positive) cost is printed.  Compared with tolerance 1e-6.
Options: positional file, --width (factor), --threads.
Well-formedness: symmetric non-negative flows with a zero diagonal, positive lengths.
"""
import re
from itertools import permutations
from .base import Example, _ABORT

CLEARANCE = 10


def parse(text):
    rows = [l.replace(",", " ").split() for l in text.split("\n") if l]
    rows = [r for r in rows if r]
    n = int(rows[0][0])
    lengths = [int(x) for x in rows[1][:n]]
    flows = [[int(x) for x in r[:n]] for r in rows[2:2 + n]]
    assert len(lengths) == n and len(flows) == n
    return n, lengths, flows


def layout_cost(order, lengths, flows, gap):
    centre, x = {}, 0
    for k, d in enumerate(order):
        if k:
            x += gap
        centre[d] = x + lengths[d] / 2
        x += lengths[d]
    n = len(order)
    return sum(flows[i][j] * abs(centre[i] - centre[j]) for i in range(n) for j in range(i + 1, n))


class Srflp(Example):
    name = "srflp"
    has_threads = True

    def random_instance(self, rng, idx):
        n = rng.randint(3, 7)
        lengths = [rng.randint(1, rng.choice([3, 10, 30])) for _ in range(n)]
        dens = rng.choice([0.4, 0.7, 1.0])
        flows = [[0] * n for _ in range(n)]
        for i in range(n):
            for j in range(i + 1, n):
                if rng.random() < dens:
                    flows[i][j] = flows[j][i] = rng.randint(1, 9)
        sep = rng.choice([",", " "])
        lines = [str(n), sep.join(map(str, lengths))] + [sep.join(map(str, r)) for r in flows]
        clearance = rng.random() < 0.35
        name = (f"Cl_{idx:06d}.txt" if clearance else f"srflp_{idx:06d}.txt")
        return name, "\n".join(lines) + "\n"

    @staticmethod
    def gap(file_name):
        return CLEARANCE if "Cl" in file_name else 0

    def oracle(self, text, file_name):
        n, lengths, flows = parse(text)
        gap = self.gap(file_name)
        best = None
        for order in permutations(range(n)):
            if n > 1 and order[0] > order[-1]:
                continue                                   # a layout and its mirror image cost the same
            c = layout_cost(order, lengths, flows, gap)
            if best is None or c < best:
                best = c
        return best

    def baseline(self, text, file_name):
        n, lengths, flows = parse(text)
        return layout_cost(range(n), lengths, flows, self.gap(file_name))

    def parse(self, stdout):
        o = re.search(r"^Objective:\s+(\S+)\s*$", stdout, re.M)
        a = _ABORT.search(stdout)
        if not o or not a:
            return None
        try:
            obj = float(o.group(1))
        except ValueError:
            return None
        return {"objective": obj, "aborted": a.group(1) == "true", "problem": None}

    def printed(self, value):
        return -1.0 if value is None else float(value)

    def same(self, printed, expected):
        return abs(printed - expected) <= 1e-6

    def size(self, text, file_name):
        return parse(text)[0]


EXAMPLE = Srflp()
