"""psp - production scheduling (discrete lot sizing with changeover and stocking costs, a.k.a. pigment sequencing)
(/repo/ddo/examples/psp/{main,io_utils,model}.rs)

Format (io_utils.rs): three lines holding exactly one integer each (periods T, items, orders), a blank line, the
items x items changeover matrix, a blank line, the stocking costs (one line), a blank line, one line of T 0/1 demands
per item, then optionally a blank line and the known optimum (ignored).
Problem: the machine makes at most one unit per period.  demand[i][t] = 1: one unit of item i is due at the end of
period t; it has to be produced in a period p <= t and costs stocking[i] * (t - p).  When the machine makes item i
and the NEXT unit it makes (idle periods in between do not matter) is item j, it costs changeover[i][j]
(row = item made first; checked on resources/psp/instancesWith2items/1: optimum 13).
Printed: `Objective:  <min total cost>`, positive (the model maximises the opposite, main.rs negates); -1 = no
feasible plan.  Options: positional file, --width, --threads (declared; the program runs a sequential solver).
Well-formedness: feasible demands (for every t: number of orders due at or before t <= t+1), 0/1 demands, zero
changeover diagonal.
"""
from .base import Example


def parse(text):
    blocks, cur = [], []
    for line in text.split("\n"):
        if line.strip():
            cur.append(line.split())
        elif cur:
            blocks.append(cur)
            cur = []
    if cur:
        blocks.append(cur)
    T, items = int(blocks[0][0][0]), int(blocks[0][1][0])
    change = [[int(x) for x in r] for r in blocks[1]]
    stock = [int(x) for x in blocks[2][0]]
    demand = [[int(x) for x in r] for r in blocks[3]]
    assert len(change) == items and len(stock) == items and len(demand) == items and all(len(r) == T for r in demand)
    return T, items, change, stock, demand


class Psp(Example):
    name = "psp"
    has_threads = True

    def random_instance(self, rng, idx):
        T = rng.randint(4, 8)
        items = rng.randint(2, 4)
        orders = rng.randint(2, T)
        while True:
            # a hidden feasible plan: distinct production periods, each order due at or after its period
            slots = rng.sample(range(T), orders)
            demand = [[0] * T for _ in range(items)]
            ok = True
            for p in slots:
                i = rng.randrange(items)
                due = min(T - 1, p + rng.choice([0, 0, 1, 2, 3]))
                if demand[i][due]:
                    ok = False
                    break
                demand[i][due] = 1
            if ok:
                break
        hi = rng.choice([3, 10, 30])
        change = [[0 if i == j else rng.randint(0, hi) for j in range(items)] for i in range(items)]
        stock = [rng.randint(1, rng.choice([2, 5, 10])) for _ in range(items)]
        lines = [str(T), str(items), str(orders), ""]
        lines += [" ".join(map(str, r)) for r in change] + ["", " ".join(map(str, stock)), ""]
        lines += [" ".join(map(str, r)) for r in demand]
        if rng.random() < 0.5:
            lines += ["", "0"]                            # the slot of the "known optimum", ignored by the reader
        return f"psp_{idx:06d}.txt", "\n".join(lines) + "\n"

    @staticmethod
    def dues(T, items, demand):
        return [[t for t in range(T) if demand[i][t]] for i in range(items)]

    def oracle(self, text, file_name):
        T, items, change, stock, demand = parse(text)
        dues = self.dues(T, items, demand)
        best = [None]

        # all period -> item (or idle) assignments; the k-th unit of an item serves its k-th due date (any other
        # matching of units to orders of the same item costs the same or is infeasible)
        def rec(t, made, last, cost):
            if best[0] is not None and cost >= best[0]:
                return
            if t == T:
                if all(made[i] == len(dues[i]) for i in range(items)):
                    best[0] = cost
                return
            rec(t + 1, made, last, cost)                   # idle
            for i in range(items):
                k = made[i]
                if k < len(dues[i]) and dues[i][k] >= t:
                    c = cost + stock[i] * (dues[i][k] - t) + (change[last][i] if last is not None else 0)
                    made[i] += 1
                    rec(t + 1, made, i, c)
                    made[i] -= 1
            # an order whose due date has passed makes the branch infeasible: detected at t == T

        rec(0, [0] * items, None, 0)
        return best[0]

    def baseline(self, text, file_name):
        # just in time: orders by decreasing due date (ties: item index), each in the latest free period
        T, items, change, stock, demand = parse(text)
        orders = sorted(((t, i) for i in range(items) for t in range(T) if demand[i][t]), reverse=True)
        plan = [None] * T
        cost = 0
        for due, i in orders:
            p = due
            while p >= 0 and plan[p] is not None:
                p -= 1
            if p < 0:
                return None
            plan[p] = i
            cost += stock[i] * (due - p)
        seq = [i for i in plan if i is not None]
        return cost + sum(change[a][b] for a, b in zip(seq, seq[1:]))

    def size(self, text, file_name):
        return parse(text)[0]


EXAMPLE = Psp()
