"""talentsched - talent scheduling  (/repo/ddo/examples/talentsched/{main,io_utils,model}.rs)

Format (io_utils.rs; the first line is the instance name, empty lines skipped): number of scenes and number of
actors (on one line or on two), then one line per actor "<0/1 for each scene> <daily cost>", then the line of the
scene durations.
Problem: order the scenes; an actor is on location (and paid `cost` per day) from the first to the last scene he
plays in, days without a scene of his included.  Objective: total pay, minimum over all scene orders.
Printed: `Objective:  <min total pay>`: the model maximises the opposite, starting from -(pay of the days actually
played); main.rs negates: the FULL cost is printed, positive.
Options: positional file, --width, --threads.
Well-formedness: positive costs and durations (the bound divides by sums of costs).
"""
from itertools import permutations
from .base import Example


def parse(text):
    rows = [l.split() for l in text.split("\n")[1:] if l.strip()]
    if len(rows[0]) >= 2:
        ns, na = int(rows[0][0]), int(rows[0][1])
        rows = rows[1:]
    else:
        ns, na = int(rows[0][0]), int(rows[1][0])
        rows = rows[2:]
    plays = [[int(x) for x in r[:ns]] for r in rows[:na]]
    cost = [int(r[ns]) for r in rows[:na]]
    dur = [int(x) for x in rows[na][:ns]]
    assert len(plays) == na and len(dur) == ns
    return ns, na, plays, cost, dur


def total_pay(order, plays, cost, dur):
    tot = 0
    for a, row in enumerate(plays):
        where = [k for k, s in enumerate(order) if row[s]]
        if where:
            tot += cost[a] * sum(dur[order[k]] for k in range(where[0], where[-1] + 1))
    return tot


class TalentSched(Example):
    name = "talentsched"
    has_threads = True

    def random_instance(self, rng, idx):
        ns = rng.randint(3, 7)
        na = rng.randint(2, 5)
        dens = rng.choice([0.3, 0.5, 0.7])
        plays = [[int(rng.random() < dens) for _ in range(ns)] for _ in range(na)]
        cost = [rng.randint(1, rng.choice([3, 10, 40])) for _ in range(na)]
        dur = [rng.randint(1, rng.choice([1, 3, 6])) for _ in range(ns)]
        head = [f"exlab{idx}"] + ([f"{ns} {na}"] if rng.random() < 0.3 else [str(ns), str(na)])
        body = [" ".join(map(str, row)) + f"  {c}" for row, c in zip(plays, cost)]
        text = "\n".join(head + body + ["", " ".join(map(str, dur))]) + "\n"
        return f"ts_{idx:06d}.txt", text

    def oracle(self, text, file_name):
        ns, na, plays, cost, dur = parse(text)
        best = None
        for order in permutations(range(ns)):
            if ns > 1 and order[0] > order[-1]:
                continue                                   # an order and its reverse cost the same
            c = total_pay(order, plays, cost, dur)
            if best is None or c < best:
                best = c
        return best

    def baseline(self, text, file_name):
        ns, na, plays, cost, dur = parse(text)
        return total_pay(list(range(ns)), plays, cost, dur)

    def size(self, text, file_name):
        return parse(text)[0]


EXAMPLE = TalentSched()
