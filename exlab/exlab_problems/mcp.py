"""mcp - maximum cut  (/repo/ddo/examples/mcp/{main,graph,model}.rs)

Format (graph.rs, lines trimmed, empty lines and "c ..." skipped): "<n> <m>" then "<u> <v> <w>" (1-based vertices,
any integer weight; the graph is undirected, a repeated edge overwrites the previous one; lines that match
nothing are ignored).
Printed: `Objective:  <max weight of the edges crossing a bipartition>` (maximisation, printed as is).  The model
puts vertex 1 on side S; by symmetry this loses nothing, the oracle does the same.
Options: --file <path>, --width; NO thread option.
Well-formedness: each unordered pair at most once, no self loop.
"""
from itertools import product, combinations
from .base import Example


def parse(text):
    n, edges = 0, []
    for line in text.split("\n"):
        line = line.strip()
        if not line or line.startswith("c "):
            continue
        tok = line.split()
        if len(tok) == 2:
            n = int(tok[0])
        elif len(tok) == 3:
            edges.append((int(tok[0]) - 1, int(tok[1]) - 1, int(tok[2])))
    return n, edges


def render(n, edges, comment=None):
    out = (["c " + comment] if comment else []) + [f"{n} {len(edges)}"]
    out += [f"{u + 1} {v + 1} {w}" for u, v, w in edges]
    return "\n".join(out) + "\n"


def cut(edges, side):
    return sum(w for u, v, w in edges if side[u] != side[v])


class Mcp(Example):
    name = "mcp"
    has_threads = False
    file_flag = "--file"
    ext = "mc"

    def grid(self, tier="quick"):
        # n = 2, 3: each pair absent or of weight -1, 1, 2;  n = 4: each pair absent or of weight -1, 1  (797 files)
        # thorough: also n = 4 with weights -1, 1, 2 (the files that contain a weight 2)
        levels = [(2, (None, -1, 1, 2)), (3, (None, -1, 1, 2)), (4, (None, -1, 1))]
        if tier == "thorough":
            levels.append((4, (None, -1, 1, 2)))
        k, seen = 0, set()
        for n, vals in levels:
            pairs = list(combinations(range(n), 2))
            for ws in product(vals, repeat=len(pairs)):
                if (n, ws) in seen:
                    continue
                seen.add((n, ws))
                edges = [(u, v, w) for (u, v), w in zip(pairs, ws) if w is not None]
                k += 1
                yield f"mcp_grid_{k:05d}.mc", render(n, edges)

    def random_instance(self, rng, idx):
        n = rng.randint(3, 8)
        dens = rng.choice([0.3, 0.5, 0.8, 1.0])
        lo = rng.choice([1, -3, -9])            # all positive / some negative / many negative
        edges = []
        for u, v in combinations(range(n), 2):
            if rng.random() < dens:
                w = rng.randint(lo, 9)
                edges.append((u, v, w) if rng.random() < 0.5 else (v, u, w))
        rng.shuffle(edges)
        return f"mcp_{idx:06d}.mc", render(n, edges, "exlab" if rng.random() < 0.3 else None)

    def oracle(self, text, file_name):
        n, edges = parse(text)
        best = None
        for mask in range(1 << max(n - 1, 0)):
            side = [0] + [mask >> i & 1 for i in range(n - 1)]      # vertex 1 fixed on side 0
            c = cut(edges, side)
            best = c if best is None else max(best, c)
        return best

    def baseline(self, text, file_name):
        # greedy in index order: put each vertex on the side that adds the most to the cut (ties: side 0)
        n, edges = parse(text)
        side = []
        for v in range(n):
            gain = [0, 0]
            for a, b, w in edges:
                o = a if b == v else b if a == v else None
                if o is not None and o < v:
                    gain[1 - side[o]] += w
            side.append(0 if gain[0] >= gain[1] else 1)
        return cut(edges, side)

    def size(self, text, file_name):
        return parse(text)[0]


EXAMPLE = Mcp()
