"""alp - aircraft landing  (/repo/ddo/examples/alp/{main,io_utils,model}.rs)

Format (io_utils.rs: all the whitespace separated integers of the file, in order): number of aircraft, of classes,
of runways; per aircraft "target latest class"; then the classes x classes separation matrix (row = class of the
aircraft landing first).
Problem: give every aircraft a runway and a landing time in [target, latest]; two aircraft on the same runway,
a (class c) before b (class d), must be separated by at least separation[c][d].  Objective: sum of
(landing time - target), minimum.
Printed: `Objective:  <min total delay>` positive (the model maximises the opposite, main.rs negates); -1 when no
feasible schedule exists.  Options: positional file, --width, --threads.
Well-formedness (the benchmark generator's conventions, which the model relies on): aircraft listed by
non-decreasing target time; within a class non-decreasing latest time (then landing the aircraft of a class in
file order loses nothing); separation matrix closed under the triangle inequality (then separating consecutive
landings separates all pairs - the oracle enforces ALL pairs, the model only consecutive ones).
"""
from itertools import product
from .base import Example


def parse(text):
    data = [int(x) for x in text.split()]
    n, nc, nr = data[:3]
    planes = [tuple(data[3 + 3 * k: 6 + 3 * k]) for k in range(n)]          # (target, latest, class)
    off = 3 + 3 * n
    sep = [data[off + nc * i: off + nc * (i + 1)] for i in range(nc)]
    assert len(sep) == nc and all(len(r) == nc for r in sep)
    return n, nc, nr, planes, sep


def runway_costs(n, planes, sep):
    """best[S] = min total delay of landing exactly the set S (bitmask) on ONE runway, over all the orders of S that
    are feasible (absent when there is none).  Depth-first enumeration of all the landing sequences; every aircraft
    lands as early as the sequence allows (delays only push the followers)."""
    best = {0: 0}
    nc = len(sep)

    # last[c] = landing time of the latest aircraft of class c in the sequence so far (None: no such aircraft).
    # Landing times never decrease along a sequence, so separating b from the latest aircraft of every class
    # separates it from ALL the aircraft that landed before it.
    def rec(last, mask, cost):
        for b in range(n):
            if mask >> b & 1:
                continue
            target, latest, cb = planes[b]
            t = target
            for c in range(nc):
                if last[c] is not None:
                    t = max(t, last[c] + sep[c][cb])
            if t > latest:
                continue
            m, c2 = mask | 1 << b, cost + t - target
            if m not in best or c2 < best[m]:
                best[m] = c2
            saved, last[cb] = last[cb], t
            rec(last, m, c2)
            last[cb] = saved

    rec([None] * nc, 0, 0)
    return best


class Alp(Example):
    name = "alp"
    has_threads = True

    def random_instance(self, rng, idx):
        n = rng.randint(3, 6) if rng.random() < 0.9 else 7
        nc = rng.randint(1, 3)
        nr = rng.choice([1, 1, 2, 2, 3])
        hi = rng.choice([3, 8, 20])
        sep = [[rng.randint(1, hi) for _ in range(nc)] for _ in range(nc)]
        if rng.random() < 0.5:                                   # symmetric, like the benchmark files
            for i in range(nc):
                for j in range(i):
                    sep[i][j] = sep[j][i]
        for k in range(nc):                                      # triangle inequality
            for i in range(nc):
                for j in range(nc):
                    if sep[i][k] + sep[k][j] < sep[i][j]:
                        sep[i][j] = sep[i][k] + sep[k][j]
        gap = rng.choice([0, 2, hi])                             # small gaps between targets: congestion
        slack = rng.choice([hi, 3 * hi, 10 * hi])                # small slack: possibly infeasible
        planes, t, last_latest = [], 0, {}
        for _ in range(n):
            t += rng.randint(0, gap)
            c = rng.randrange(nc)
            latest = max(t + rng.randint(0, slack), last_latest.get(c, 0))
            last_latest[c] = latest
            planes.append((t, latest, c))
        lines = [f"{n} {nc} {nr}"] + [f"{a} {b} {c}" for a, b, c in planes] + [" ".join(map(str, r)) for r in sep]
        return f"alp_{idx:06d}.txt", "\n".join(lines) + "\n"

    def oracle(self, text, file_name):
        n, nc, nr, planes, sep = parse(text)
        one = runway_costs(n, planes, sep)
        full = (1 << n) - 1
        # best way to split the aircraft over the runways
        cur = dict(one)                                          # using 1 runway
        for _ in range(nr - 1):
            nxt = {}
            for m1, c1 in cur.items():
                for m2, c2 in one.items():
                    if m1 & m2 == 0:
                        m, c = m1 | m2, c1 + c2
                        if m not in nxt or c < nxt[m]:
                            nxt[m] = c
            cur = nxt
        return cur.get(full)

    def baseline(self, text, file_name):
        # first come first served: aircraft in file order, each on the runway where it lands first
        n, nc, nr, planes, sep = parse(text)
        runways = [[] for _ in range(nr)]
        tot = 0
        for b, (target, latest, cb) in enumerate(planes):
            opts = []
            for r in range(nr):
                t = target
                for a, ta in runways[r]:
                    t = max(t, ta + sep[planes[a][2]][cb])
                opts.append((t, r))
            t, r = min(opts)
            if t > latest:
                return None
            runways[r].append((b, t))
            tot += t - target
        return tot

    def size(self, text, file_name):
        return parse(text)[0]


EXAMPLE = Alp()
