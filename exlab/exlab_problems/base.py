"""Common base of the twelve example descriptions used by exlab (property C16).

One subclass per example program of /repo/ddo/examples.  A subclass knows

* how the program is invoked (positional path / ``--file`` / a plain size, whether it has a thread option),
* how to *generate* well-formed instance files in the program's input format,
* how to compute, by exhaustive enumeration written from the PROBLEM STATEMENT (never from the DP model),
  the objective value the program has to print (``oracle``); the oracle always starts from the instance
  *text* (it has its own little parser) so that a replay can recompute it from the replay file alone,
* a trivial baseline heuristic (``baseline``): an instance whose optimum differs from the baseline needs
  search and is counted as *non-trivial* in the evidence,
* how the objective is printed (``printed``) and how the program's output is parsed (``parse``).

Values: ``oracle`` / ``baseline`` return the natural value of the problem (a profit, a cost, a length ...)
or ``None`` when the instance has no solution.  ``printed(value)`` maps it to what must appear on stdout.
"""
import re

_OBJ = re.compile(r"^Objective:\s+(\S+)\s*$", re.M)
_ABORT = re.compile(r"^Aborted:\s+(true|false)\s*$", re.M)


class Example:
    name = "?"
    #: True when main.rs declares a `--threads` option (knapsack and psp declare it but run a sequential solver)
    has_threads = True
    #: None: the instance path is positional; otherwise the name of the option that takes it
    file_flag = None
    #: extension of the generated files (cosmetic)
    ext = "txt"

    # ---- invocation -------------------------------------------------------------------------------------
    def command(self, binary, path, text, width, threads):
        """argv of one run; width None = the program's default (no --width), threads None = no thread option"""
        cmd = [binary]
        cmd += [path] if self.file_flag is None else [self.file_flag, path]
        if width is not None:
            cmd += ["--width", str(width)]
        if threads is not None and self.has_threads:
            cmd += ["--threads", str(threads)]
        return cmd

    # ---- instances --------------------------------------------------------------------------------------
    def grid(self, tier="quick"):
        """iterator over a bounded-exhaustive family of the smallest instances (file_name, text), smallest first;
        None if there is no such family for this example.  The thorough tier may enumerate a larger family (the
        quick family is a prefix of it)."""
        return None

    def random_instance(self, rng, idx):
        """-> (file_name, text); must only produce well-formed instances; returns None when the example has a
        finite instance space that is exhausted (golomb)"""
        raise NotImplementedError

    # ---- oracle -----------------------------------------------------------------------------------------
    def oracle(self, text, file_name):
        raise NotImplementedError

    def baseline(self, text, file_name):
        raise NotImplementedError

    def size(self, text, file_name):
        """a small integer describing the size of the instance (number of items / vertices / ...), for the facts
        of a violation"""
        return None

    # ---- output -----------------------------------------------------------------------------------------
    def printed(self, value):
        """what the `Objective:` line must show for the oracle value `value`"""
        return -1 if value is None else value

    def parse(self, stdout):
        """-> dict(objective=<int|float|str>, aborted=<bool>, problem=<None | text of another defect visible in the
        output>) or None when the output does not have the expected shape"""
        o = _OBJ.search(stdout)
        a = _ABORT.search(stdout)
        if not o or not a:
            return None
        try:
            obj = int(o.group(1))
        except ValueError:
            return None
        return {"objective": obj, "aborted": a.group(1) == "true", "problem": None}

    def same(self, printed, expected):
        return printed == expected


def ints(line):
    return [int(x) for x in line.split()]
