"""golomb - optimal Golomb ruler  (/repo/ddo/examples/golomb/main.rs)

No instance file: the only input is the number of marks `size` (positional, default 5).  Options: --width;
`-t` is a *timeout* here, there is NO thread option (sequential solver).
Printed: `Objective:  <-(length of a shortest ruler with `size` marks)>`: the model minimises the position of the
last mark by maximising its opposite and main.rs prints the solver's value unchanged, i.e. NEGATIVE
(size 2 prints -1, which is the length-1 ruler, not "no solution").
Instance space of the property: sizes 2..7 (6 instances; the "instance text" of a golomb case is the size).
"""
from .base import Example

SIZES = [2, 3, 4, 5, 6, 7]


def exists_ruler(n, length):
    """is there a set of n marks 0 = m1 < ... < mn = length whose pairwise differences are all distinct?"""
    def rec(marks, dists):
        if len(marks) == n - 1:
            new = {length - m for m in marks}
            return len(new) == len(marks) and not (new & dists)
        need = n - 1 - len(marks)                    # marks still to place strictly before `length`
        for p in range(marks[-1] + 1, length - need + 1):
            new = {p - m for m in marks}
            if new & dists:
                continue
            if rec(marks + [p], dists | new):
                return True
        return False
    return rec([0], set())


class Golomb(Example):
    name = "golomb"
    has_threads = False

    def command(self, binary, path, text, width, threads):
        cmd = [binary, text.strip()]
        if width is not None:
            cmd += ["--width", str(width)]
        return cmd

    def random_instance(self, rng, idx):
        if idx >= len(SIZES):
            return None                               # finite instance space
        return None, f"{SIZES[idx]}\n"

    def oracle(self, text, file_name):
        n = int(text)
        length = n - 1
        while not exists_ruler(n, length):
            length += 1
        return length

    def baseline(self, text, file_name):
        # greedy ruler: every new mark at the first position that repeats no difference
        n = int(text)
        marks, dists = [0], set()
        while len(marks) < n:
            p = marks[-1] + 1
            while {p - m for m in marks} & dists:
                p += 1
            dists |= {p - m for m in marks}
            marks.append(p)
        return marks[-1]

    def printed(self, value):
        return -value

    def size(self, text, file_name):
        return int(text)


EXAMPLE = Golomb()
