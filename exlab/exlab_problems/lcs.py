"""lcs - longest common subsequence of several strings  (/repo/ddo/examples/lcs/{main,io_utils,model}.rs)

Format (io_utils.rs): first line "<number of strings> <alphabet size>", then one line "<length> <string>" per
string (whitespace separated; a blank line is an error, so the file has none).  The reader sizes its tables with the
DECLARED alphabet size and indexes them with the rank of each character among the characters that occur:
well-formed = declared size == number of distinct characters.
Printed: `Objective:  <length of a longest common subsequence>` (maximisation, printed as is; 0 when the strings
share no character).  Options: positional file, --width, --threads (parallel solver).
"""
from .base import Example


def parse(text):
    rows = [l for l in text.split("\n") if l.strip()]
    k, _nchars = (int(x) for x in rows[0].split())
    strings = [r.split()[1] for r in rows[1:]]
    assert len(strings) == k
    return strings


def is_subseq(s, t):
    it = iter(t)
    return all(c in it for c in s)


class Lcs(Example):
    name = "lcs"
    has_threads = True

    def random_instance(self, rng, idx):
        k = rng.choice([2, 2, 3])
        alpha = "acgt"[:rng.randint(2, 4)]
        style = rng.randrange(3)
        if style == 0:                                   # independent random strings
            strings = ["".join(rng.choice(alpha) for _ in range(rng.randint(3, 8))) for _ in range(k)]
        else:                                            # noisy copies of a common core: long common subsequences
            core = "".join(rng.choice(alpha) for _ in range(rng.randint(3, 6)))
            strings = []
            for _ in range(k):
                s = list(core)
                for _ in range(rng.randint(0, 3)):
                    if s and rng.random() < 0.4 and len(s) > 2:
                        del s[rng.randrange(len(s))]
                    elif len(s) < 8:
                        s.insert(rng.randint(0, len(s)), rng.choice(alpha))
                strings.append("".join(s))
        nchars = len(set("".join(strings)))
        sep = rng.choice([" ", "\t"])
        text = f"{k} {nchars}\n" + "".join(f"{len(s)}{sep}{s}\n" for s in strings)
        return f"lcs_{idx:06d}.txt", text

    def oracle(self, text, file_name):
        strings = sorted(parse(text), key=len)
        ref, others = strings[0], strings[1:]
        best = 0
        seen = set()
        for mask in range(1 << len(ref)):
            cand = "".join(c for i, c in enumerate(ref) if mask >> i & 1)
            if len(cand) <= best or cand in seen:
                continue
            seen.add(cand)
            if all(is_subseq(cand, o) for o in others):
                best = len(cand)
        return best

    def baseline(self, text, file_name):
        # greedy: scan the first string, keep a character when it can still be matched (leftmost) in all the others
        strings = parse(text)
        pos = [0] * (len(strings) - 1)
        val = 0
        for c in strings[0]:
            nxt = [o.find(c, p) for o, p in zip(strings[1:], pos)]
            if all(x >= 0 for x in nxt):
                pos = [x + 1 for x in nxt]
                val += 1
        return val

    def size(self, text, file_name):
        return max(len(s) for s in parse(text))


EXAMPLE = Lcs()
