"""The twelve example descriptions of exlab (property C16), in the round-robin order of the campaign."""
from . import knapsack, misp, max2sat, mcp, lcs, golomb, sop, tsptw, srflp, talentsched, psp, alp

ALL = [m.EXAMPLE for m in (knapsack, misp, max2sat, mcp, lcs, golomb, sop, tsptw, srflp, talentsched, psp, alp)]
BY_NAME = {e.name: e for e in ALL}
