"""tsptw - travelling salesman with time windows, makespan objective  (/repo/ddo/examples/tsptw/*.rs)

Format (instance.rs; lines trimmed, empty lines and lines starting with '#' skipped): n, then the n x n distance
matrix (row i = distances FROM i), then n lines "<earliest> <latest>".  Every number is parsed as f32, multiplied by
10000 and truncated to an integer.  The generator only writes small integers, for which this scaling is exact.
Problem (model.rs): leave the depot (node 0) at time 0, visit every other node once, come back to the depot.
Arriving at j before earliest[j] means waiting, arriving after latest[j] is forbidden - this also holds for the final
return to the depot.  Objective: the time of the (possibly delayed) return = total travel + waiting time.
The model prunes a state as soon as one unvisited node cannot be reached in time by the DIRECT arc, which is only
right when the distances satisfy the triangle inequality: well-formed = matrix closed by Floyd-Warshall.
Printed (main.rs): `status   : Proved|Timeout`, `lower bnd: <v>`, `upper bnd: <v>` with
v = format!("{:.2}", -(x as f32 / 10000.0)) where x is the solver's (negative, scaled) bound; "+inf" when there is no
tour.  Both bound lines have to show the optimum when the status is Proved.  A zero makespan prints "-0.00"
(negated f32 zero).  Options: positional file, --width (factor), --threads.
NB: main.rs panics when the path has no parent directory *name* (instance_name()); exlab always passes
<dir>/<file> paths, this path-dependent behaviour is deliberately not an alarm.
"""
import re
import struct
from itertools import permutations
from .base import Example


def f32(x):
    return struct.unpack("f", struct.pack("f", x))[0]


def scaled(tok):
    """what the reader makes of one number: (tok as f32 * 10000.0) as usize"""
    return int(f32(f32(float(tok)) * f32(10000.0)))


def parse(text):
    rows = [l.strip() for l in text.split("\n") if l.strip() and not l.strip().startswith("#")]
    n = int(rows[0].split()[0])
    dist = [[scaled(t) for t in r.split()] for r in rows[1:1 + n]]
    tw = [tuple(scaled(t) for t in r.split()[:2]) for r in rows[1 + n:1 + 2 * n]]
    assert len(dist) == n and all(len(r) == n for r in dist) and len(tw) == n
    return n, dist, tw


def tour_time(order, dist, tw):
    """completion time of depot -> order -> depot, None if a deadline is missed"""
    t, cur = 0, 0
    for j in list(order) + [0]:
        t += dist[cur][j]
        if t > tw[j][1]:
            return None
        t = max(t, tw[j][0])
        cur = j
    return t


def show(scaled_value):
    """main.rs::objective applied to the solver bound -scaled_value"""
    if scaled_value is None:
        return "+inf"
    x = -scaled_value
    q = f32(f32(float(x)) / f32(10000.0))       # x as f32 / 10000f32 (double rounding is harmless for a division)
    return format(-q, ".2f")                    # -(0.0) is -0.0 and prints "-0.00" in Rust and in Python


class Tsptw(Example):
    name = "tsptw"
    has_threads = True
    ext = "tw"

    def random_instance(self, rng, idx):
        n = rng.randint(3, 7) if rng.random() < 0.9 else 8       # nodes, depot included
        hi = rng.choice([4, 9, 15])
        lo = 0 if rng.random() < 0.15 else 1
        sym = rng.random() < 0.5
        d = [[0] * n for _ in range(n)]
        for i in range(n):
            for j in range(n):
                if i != j:
                    d[i][j] = d[j][i] if (sym and j < i) else rng.randint(lo, hi)
        for k in range(n):                                  # Floyd-Warshall: triangle inequality
            for i in range(n):
                for j in range(n):
                    if d[i][k] + d[k][j] < d[i][j]:
                        d[i][j] = d[i][k] + d[k][j]
        style = rng.randrange(4)
        horizon = sum(max(r) for r in d) + hi
        tw = [(0, horizon)] * n
        if style in (0, 1):                                 # windows around a hidden feasible tour
            order = list(range(1, n))
            rng.shuffle(order)
            slack = rng.choice([1, 3, 8])
            t, cur, tw = 0, 0, [None] * n
            for j in order:
                t += d[cur][j]
                e = max(0, t - rng.randint(-slack, slack))  # may be later than the arrival: waiting
                l = max(e, t) + rng.randint(0, slack)
                tw[j] = (e, l)
                t, cur = max(t, e), j
            t += d[cur][0]
            tw[0] = (0, t + (rng.randint(0, slack) if style == 0 else horizon))
        elif style == 2:                                    # independent random windows, possibly infeasible
            tw = [(0, horizon)]
            for _ in range(1, n):
                e = rng.randint(0, horizon // 2)
                tw.append((e, e + rng.randint(0, horizon // 2)))
        # style 3: plain TSP, all windows wide open
        lines = [str(n)] + [" ".join(str(x) for x in row) for row in d] + [f"{e} {l}" for e, l in tw]
        if rng.random() < 0.3:
            lines.append("# generated by exlab")
        return f"tsptw_{idx:06d}.tw", "\n".join(lines) + "\n"

    def oracle(self, text, file_name):
        n, dist, tw = parse(text)
        best = None
        for order in permutations(range(1, n)):
            t = tour_time(order, dist, tw)
            if t is not None and (best is None or t < best):
                best = t
        return best

    def baseline(self, text, file_name):
        # visit the customers by increasing deadline
        n, dist, tw = parse(text)
        return tour_time(sorted(range(1, n), key=lambda j: (tw[j][1], j)), dist, tw)

    def printed(self, value):
        return show(value)

    def parse(self, stdout):
        st = re.search(r"^status\s*:\s*(\S+)\s*$", stdout, re.M)
        lb = re.search(r"^lower bnd\s*:\s*(\S+)\s*$", stdout, re.M)
        ub = re.search(r"^upper bnd\s*:\s*(\S+)\s*$", stdout, re.M)
        if not (st and lb and ub):
            return None
        problem = None
        if st.group(1) == "Proved" and ub.group(1) != lb.group(1):
            problem = f"status Proved but upper bnd {ub.group(1)} differs from lower bnd {lb.group(1)}"
        return {"objective": lb.group(1), "aborted": st.group(1) != "Proved", "problem": problem}

    def size(self, text, file_name):
        return parse(text)[0]


EXAMPLE = Tsptw()
