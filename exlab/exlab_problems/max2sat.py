"""max2sat - weighted MAX-2-SAT  (/repo/ddo/examples/max2sat/{main,data,model}.rs)

Format (data.rs::read_instance, lines trimmed, empty lines and "c ..." skipped): "p wcnf <vars> <clauses>", then
clauses "<w> <x> <y> 0" (binary; x == y is a unit clause, x == -y a tautology) or "<w> <x> 0" (unit).  Literals
are +-(1-based variable).  The reader stores clauses in a map keyed by the unordered pair of literals: a repeated
clause would overwrite the previous weight, hence the generator never repeats a clause.
Printed: `Objective:  <max total weight of satisfied clauses>` (maximisation, printed as is; tautologies count).
Options: --file <path>, --width; NO thread option (DefaultSolver::new uses all the cores).
Well-formedness: positive weights, no repeated clause.
"""
from .base import Example


def parse(text):
    n, clauses = 0, []
    for line in text.split("\n"):
        line = line.strip()
        if not line or line.startswith("c"):
            continue
        tok = line.split()
        if tok[0] == "p":
            n = int(tok[2])
            continue
        nums = [int(x) for x in tok]
        assert nums[-1] == 0 and len(nums) in (3, 4)
        clauses.append((nums[0], tuple(nums[1:-1])))
    return n, clauses  # (weight, literals)


def value(clauses, assign):
    """assign[i] is the truth value of variable i+1"""
    tot = 0
    for w, lits in clauses:
        if any((l > 0) == assign[abs(l) - 1] for l in lits):
            tot += w
    return tot


class Max2Sat(Example):
    name = "max2sat"
    has_threads = False
    file_flag = "--file"
    ext = "wcnf"

    def random_instance(self, rng, idx):
        n = rng.randint(1, 6) if rng.random() < 0.2 else rng.randint(3, 7)
        lits = [l for v in range(1, n + 1) for l in (v, -v)]
        keys = [(a, b) for i, a in enumerate(lits) for b in lits[i:]]      # unordered pairs, a == b: unit clause
        rng.shuffle(keys)
        m = rng.randint(1, min(len(keys), 3 * n + 2))
        wmax = rng.choice([1, 3, 10])
        lines = []
        for a, b in keys[:m]:
            w = rng.randint(1, wmax)
            if a == b:
                lines.append(f"{w} {a} 0" if rng.random() < 0.7 else f"{w} {a} {a} 0")
            else:
                if rng.random() < 0.5:
                    a, b = b, a
                lines.append(f"{w} {a} {b} 0")
        head = (["c exlab"] if rng.random() < 0.3 else []) + [f"p wcnf {n} {m}"]
        return f"m2s_{idx:06d}.wcnf", "\n".join(head + lines) + "\n"

    def oracle(self, text, file_name):
        n, clauses = parse(text)
        return max(value(clauses, [bool(mask >> i & 1) for i in range(n)]) for mask in range(1 << n))

    def baseline(self, text, file_name):
        n, clauses = parse(text)
        return max(value(clauses, [True] * n), value(clauses, [False] * n))

    def size(self, text, file_name):
        return parse(text)[0]


EXAMPLE = Max2Sat()
