"""misp - maximum weighted independent set  (/repo/ddo/examples/misp/main.rs)

Format (read_instance, DIMACS-like, every line trimmed, empty lines skipped): "c <comment>", "p edge <n> <m>",
optional "n <vertex> <weight>" (vertices are 1-based, default weight 1), "e <u> <v>".  Any other line is an error.
Printed: `Objective:  <max total weight of an independent set>` (maximisation, printed as is).  The program
also prints "not a solution ! a -- b" when its own solution is not independent: treated as a defect.
Options: positional file, --width, --threads (parallel solver).
Well-formedness: strictly positive weights, no self loop.
"""
from itertools import product, combinations
from .base import Example


def parse(text):
    n, w, edges = 0, [], set()
    for line in text.split("\n"):
        line = line.strip()
        if not line or line.startswith("c"):
            continue
        tok = line.split()
        if tok[0] == "p":
            n = int(tok[2])
            w = [1] * n
        elif tok[0] == "n":
            w[int(tok[1]) - 1] = int(tok[2])
        elif tok[0] == "e":
            u, v = int(tok[1]) - 1, int(tok[2]) - 1
            edges.add((min(u, v), max(u, v)))
        else:
            raise ValueError("unexpected line " + line)
    return n, w, edges


def render(n, weights, edges, comment=None):
    out = []
    if comment:
        out.append("c " + comment)
    out.append(f"p edge {n} {len(edges)}")
    if weights is not None:
        out += [f"n {i + 1} {x}" for i, x in enumerate(weights)]
    out += [f"e {u + 1} {v + 1}" for u, v in edges]
    return "\n".join(out) + "\n"


class Misp(Example):
    name = "misp"
    has_threads = True
    ext = "clq"

    def grid(self, tier="quick"):
        # all labelled graphs on 1..4 vertices with unit weights, then all weightings in {1,2} for n = 2..4
        # (1097 files); thorough: also all the graphs on 5 vertices with unit weights
        k = 0
        for weighted, sizes in ((False, (1, 2, 3, 4)), (True, (2, 3, 4)), (False, (5,) if tier == "thorough" else ())):
            for n in sizes:
                pairs = list(combinations(range(n), 2))
                for mask in range(1 << len(pairs)):
                    edges = [p for i, p in enumerate(pairs) if mask >> i & 1]
                    if not weighted:
                        k += 1
                        yield f"misp_grid_{k:05d}.clq", render(n, None, edges)
                    else:
                        for ws in product((1, 2), repeat=n):
                            if all(x == 1 for x in ws):
                                continue  # same problem as the unweighted file
                            k += 1
                            yield f"misp_grid_{k:05d}.clq", render(n, list(ws), edges)

    def random_instance(self, rng, idx):
        n = rng.randint(3, 8)
        dens = rng.choice([0.2, 0.35, 0.5, 0.7])
        edges = [(u, v) if rng.random() < 0.5 else (v, u)
                 for u, v in combinations(range(n), 2) if rng.random() < dens]
        rng.shuffle(edges)
        weights = None if rng.random() < 0.3 else [rng.randint(1, 9) for _ in range(n)]
        comment = "exlab" if rng.random() < 0.3 else None
        return f"misp_{idx:06d}.clq", render(n, weights, edges, comment)

    def oracle(self, text, file_name):
        n, w, edges = parse(text)
        best = 0
        for mask in range(1 << n):
            if any(mask >> u & 1 and mask >> v & 1 for u, v in edges):
                continue
            best = max(best, sum(w[i] for i in range(n) if mask >> i & 1))
        return best

    def baseline(self, text, file_name):
        # greedy in index order: take a vertex when none of its neighbours was taken
        n, w, edges = parse(text)
        taken = []
        for v in range(n):
            if all((min(u, v), max(u, v)) not in edges for u in taken):
                taken.append(v)
        return sum(w[v] for v in taken)

    def size(self, text, file_name):
        return parse(text)[0]

    def parse(self, stdout):
        r = super().parse(stdout)
        if r is not None and "not a solution" in stdout:
            r["problem"] = "the program reports that its own best solution is not an independent set"
        return r


EXAMPLE = Misp()
