#!/usr/bin/env python3
"""exlab - the "example lab" of the verification framework: checks property C16 of xgillard/ddo.

C16: each example program (knapsack, misp, max2sat, mcp, lcs, golomb, sop, tsptw, srflp, talentsched, psp, alp)
prints, for every well-formed instance of its input format and any width and thread count, the objective value
obtained by an independent exhaustive enumeration of the underlying combinatorial problem, and never hangs or
crashes.

What a run does
  1. builds the example binaries from /repo's CURRENT working tree (incremental, offline, feature
     `xgillard_ddo_verif` OFF, i.e. exactly what users run) into /verif/target/examples;
  2. round-robin over the twelve examples: generates a well-formed instance file (exlab_problems/<name>.py; a
     bounded-exhaustive grid of the smallest instances comes first for knapsack / misp / mcp, interleaved with random
     instances), computes the optimum with the brute-force oracle of the example, and runs the binary for
     width in {1,2,3,default} x threads in {1,2,4} (where the program has these options); the work is spread over
     16 worker processes (python oracles + one example process at a time each);
  3. judges every execution (three-valued), applies /verif/known_findings.json, writes replay files for new
     violations, rewrites /verif/evidence/C16.json and prints the verdict lines.

Verdict of one execution
  violated      abnormal exit (signal, non-zero status, panic message) | `Aborted: true` (tsptw: status Timeout) |
                printed objective != oracle | deadlock | CPU budget exhausted
  inconclusive  wall-clock timeout only
  held          otherwise
Hang rule (never wall-clock alone): all the threads of the process in state S (sleeping) in
/proc/<pid>/task/*/stat and not one CPU tick consumed during 5 s = deadlock = violated; 120 CPU-seconds
(utime+stime) without a result = violated; 300 s of wall-clock without either = inconclusive.

Exit code: 0 held on everything explored (KNOWN-FINDING lines allowed) | 1 at least one new violation |
2 harness error (build failure, oracle crash, output that cannot be parsed although the binary exited normally) or
fewer than 2 distinct non-trivial instances evaluated.

Entry points:  main(prop, spec, tier, seed, replay)  (called by /verif/check)   and the command line
  python3 exlab.py --tier quick|thorough --seed N [--replay PATH] [--only a,b] [--budget SECONDS]
All the randomness derives from `seed`: the i-th random instance of an example is drawn from
random.Random("<seed>/<example>/<i>"), so the same seed generates the same instance sequence for every example;
how far the sequence is explored depends on the time budget only.
Replay files: /verif/replays/C16/<sha1 prefix>.json (one per failing instance, first failing configuration);
`--replay` re-runs that case against the current tree and never rewrites the evidence file.
"""
import hashlib
import json
import multiprocessing
import os
import random
import shutil
import subprocess
import sys
import time

HERE = os.path.dirname(os.path.abspath(__file__))
VERIF = os.path.dirname(HERE)
if HERE not in sys.path:
    sys.path.insert(0, HERE)
import exlab_problems  # noqa: E402

REPO = "/repo"
TARGET = os.path.join(VERIF, "target", "examples")
BIN_DIR = os.path.join(TARGET, "release", "examples")
EVIDENCE = os.path.join(VERIF, "evidence")
REPLAYS = os.path.join(VERIF, "replays")
KNOWN = os.path.join(VERIF, "known_findings.json")
WORK_ROOT = os.path.join(VERIF, "work", "exlab")

# Validation only (never used by the registered commands), same convention as /verif/check:
# VERIF_REPO_OVERRIDE=<dir> runs the check against another copy of xgillard/ddo (a scratch worktree carrying a seeded
# change) without touching /repo; the binaries are built in their own target directory and evidence / replays go to
# /verif/work/override_<tag>/ instead of /verif/evidence and /verif/replays.
REPO_OVERRIDE = os.environ.get("VERIF_REPO_OVERRIDE")
if REPO_OVERRIDE:
    REPO = os.path.abspath(REPO_OVERRIDE)
    _odir = os.path.join(VERIF, "work", "override_" + hashlib.sha1(REPO.encode()).hexdigest()[:10])
    TARGET = os.path.join(_odir, "target", "examples")
    BIN_DIR = os.path.join(TARGET, "release", "examples")
    EVIDENCE = os.path.join(_odir, "evidence")
    REPLAYS = os.path.join(_odir, "replays")

# Cold build measured on this machine: 29 s with the workspace's own release profile (fat LTO, panic=abort,
# opt-level 3, no overflow checks).  That is well under the 4 minutes above which the profile would have been
# overridden (lto off / 16 codegen units), so the binaries are built exactly as `cargo build --release --examples`
# builds them for a user: no --config override.
BUILD_CMD = ["cargo", "build", "--release", "--examples", "-p", "ddo", "--offline"]
BUILD_ENV = {"CARGO_TARGET_DIR": TARGET, "CARGO_NET_OFFLINE": "true", "CARGO_TERM_COLOR": "never"}

JOBS = int(os.environ.get("VERIF_JOBS", "16"))      # concurrent example processes
WIDTHS = [1, 2, 3, None]                            # None = the program's default (no --width option)
THREADS = [1, 2, 4]                                 # only for programs that declare --threads
CPU_LIMIT_S = 120.0                                 # CPU seconds (utime + stime) without a result  -> violated
QUIET_LIMIT_S = 5.0                                 # all threads asleep + no CPU tick for that long  -> deadlock
WALL_LIMIT_S = 300.0                                # wall-clock only                                  -> inconclusive
MAX_REPLAYS = 10                                    # VIOLATION lines (and replay files) per run
CLK_TCK = os.sysconf("SC_CLK_TCK")

DEFAULT_SPEC = {
    "budget": {"quick": 60, "thorough": 900},
    "level": "exploration",
    "rule": "generated well-formed instance files per example (bounded-exhaustive grid of the smallest knapsack / "
            "misp / mcp instances interleaved with random instances of 3-8 items) x width {1,2,3,default} x threads "
            "{1,2,4}; oracle = exhaustive enumeration written from the problem statement; an instance is "
            "non-trivial when its optimum differs from the value of the example's trivial heuristic (greedy / "
            "identity order / first come first served), distinct = distinct sha1 of (example, instance text)",
    "assumptions": [
        "the python brute-force oracles implement the problem statements of the twelve examples correctly",
        "well-formedness conditions of the generators (see exlab_problems/*.py) are the ones the models rely on",
        "release binaries built from /repo's working tree without the verification feature behave as users' builds",
    ],
}


def log(*a):
    print(*a, file=sys.stderr, flush=True)


# ------------------------------------------------------------------------------------------------- build ----------
def build():
    """incremental build of the example binaries; -> (ok, seconds)"""
    env = dict(os.environ, **BUILD_ENV)
    t0 = time.time()
    try:
        r = subprocess.run(BUILD_CMD, cwd=REPO, env=env, stdout=subprocess.PIPE, stderr=subprocess.STDOUT, text=True,
                           errors="replace")
    except OSError as e:
        log(f"BUILD FAILED: cannot run cargo: {e}")
        return False, time.time() - t0
    dt = time.time() - t0
    if r.returncode != 0:
        # the compiler errors first (the output is dominated by warnings), then the tail of the cargo output
        lines, errs, on = r.stdout.splitlines(), [], False
        for l in lines:
            if l.startswith("error"):
                on = True
            elif not l.strip():
                on = False
            if on and len(errs) < 80:
                errs.append(l)
        log("\n".join(errs))
        log("...")
        log("\n".join(lines[-15:]))
        log(f"BUILD FAILED: the example binaries could not be built from {REPO}'s working tree")
        return False, dt
    missing = [e.name for e in exlab_problems.ALL if not os.path.exists(os.path.join(BIN_DIR, e.name))]
    if missing:
        log(f"BUILD FAILED: no binary for {missing} in {BIN_DIR}")
        return False, dt
    note = f" [VERIF_REPO_OVERRIDE: {REPO} -> {os.path.dirname(EVIDENCE)}]" if REPO_OVERRIDE else ""
    log(f"[build examples: {dt:.1f}s]{note}")
    return True, dt


# --------------------------------------------------------------------------------- monitored execution ------------
def proc_snapshot(pid):
    """-> (cpu ticks consumed by the process so far, [state of every thread]) or None when the process is gone"""
    try:
        with open(f"/proc/{pid}/stat") as f:
            rest = f.read().rsplit(")", 1)[1].split()        # fields after "(comm)": rest[0] is field 3 (state)
        ticks = int(rest[11]) + int(rest[12])                # fields 14 (utime) and 15 (stime)
        states = []
        for tid in os.listdir(f"/proc/{pid}/task"):
            try:
                with open(f"/proc/{pid}/task/{tid}/stat") as f:
                    states.append(f.read().rsplit(")", 1)[1].split()[0])
            except OSError:
                pass
        return ticks, states
    except (OSError, IndexError, ValueError):
        return None


def run_monitored(cmd, cwd):
    """runs one example process under the hang rule.
    -> dict(status 'exited'|'deadlock'|'cpu'|'wall', rc, stdout, stderr, cpu_s, wall_s)"""
    t0 = time.monotonic()
    env = dict(os.environ, RUST_BACKTRACE="0")
    p = subprocess.Popen(cmd, cwd=cwd, env=env, stdin=subprocess.DEVNULL, stdout=subprocess.PIPE,
                         stderr=subprocess.PIPE, text=True, errors="replace")
    status, last_ticks, quiet_since, cpu_s, poll = "exited", None, None, 0.0, 0.5
    while True:
        try:
            out, err = p.communicate(timeout=poll)
            break
        except subprocess.TimeoutExpired:
            pass
        poll = 1.0
        now = time.monotonic()
        snap = proc_snapshot(p.pid)
        if snap is None:
            continue
        ticks, states = snap
        cpu_s = ticks / CLK_TCK
        verdict = None
        if cpu_s >= CPU_LIMIT_S:
            verdict = "cpu"
        elif states and all(s == "S" for s in states) and ticks == last_ticks:
            if quiet_since is None:
                quiet_since = now
            elif now - quiet_since >= QUIET_LIMIT_S:
                verdict = "deadlock"
        else:
            quiet_since = None
        last_ticks = ticks
        if verdict is None and now - t0 >= WALL_LIMIT_S:
            verdict = "wall"
        if verdict is not None:
            status = verdict
            p.kill()
            out, err = p.communicate()
            break
    return {"status": status, "rc": p.returncode, "stdout": out, "stderr": err, "cpu_s": cpu_s,
            "wall_s": time.monotonic() - t0}


# ------------------------------------------------------------------------------------------- judging --------------
def judge(ex, case, res):
    """-> (verdict, payload): ('held', printed) | ('violated', violation dict) | ('inconclusive', why) |
    ('harness_error', why)"""
    expected = case["expected_printed"]
    where = f"{ex.name} {case['file_name'] or case['instance_text'].strip()} width={case['width']} " \
            f"threads={case['threads']}"

    def violation(clause, detail, printed=None):
        err_line = next((l for l in res["stderr"].splitlines() if l.strip()), "")
        return "violated", {
            "clause": clause,
            "detail": f"{where}: {detail}",
            "facts": {"example": ex.name, "width": case["width"], "threads": case["threads"], "size": case["size"],
                      "expected": expected, "printed": printed, "rc": res["rc"], "stderr": err_line[:300],
                      "nontrivial": case["nontrivial"]},
            "case": {"example": ex.name, "width": case["width"], "threads": case["threads"],
                     "instance_text": case["instance_text"], "file_name": case["file_name"],
                     "expected": expected, "observed_stdout": res["stdout"][-4000:]},
        }

    if res["status"] == "deadlock":
        return violation("deadlock", f"all threads asleep and no CPU tick for {QUIET_LIMIT_S:.0f}s (killed after "
                                     f"{res['wall_s']:.0f}s, {res['cpu_s']:.1f} CPU-s)")
    if res["status"] == "cpu":
        return violation("no_result_within_cpu_budget", f"no result after {res['cpu_s']:.0f} CPU-seconds")
    if res["status"] == "wall":
        return "inconclusive", f"{where}: no result after {res['wall_s']:.0f}s of wall-clock " \
                               f"({res['cpu_s']:.1f} CPU-s, not asleep)"
    if res["rc"] != 0 or "panicked at" in res["stderr"]:
        how = f"killed by signal {-res['rc']}" if res["rc"] < 0 else f"exit status {res['rc']}"
        msg = " / ".join(l.strip() for l in res["stderr"].splitlines() if l.strip())[:400]
        return violation("abnormal_exit", f"{how}: {msg}")
    parsed = ex.parse(res["stdout"])
    if parsed is None:
        return "harness_error", f"{where}: exit status 0 but the output has not the expected shape: " \
                                f"{res['stdout'][-300:]!r}"
    if parsed["aborted"]:
        return violation("aborted", "the program reports an aborted (inexact) search although no cutoff was given",
                         parsed["objective"])
    if not ex.same(parsed["objective"], expected):
        return violation("wrong_objective", f"printed {parsed['objective']}, exhaustive enumeration gives {expected}",
                         parsed["objective"])
    if parsed["problem"]:
        return violation("inconsistent_output", parsed["problem"], parsed["objective"])
    return "held", parsed["objective"]


# ---- known findings: same matching rule as /verif/check ----------------------------------------------------------
def flatten(prefix, obj, out):
    if isinstance(obj, dict):
        for k, v in obj.items():
            flatten(f"{prefix}.{k}" if prefix else k, v, out)
    else:
        out[prefix] = obj
    return out


def match_known(prop, viol, known):
    flat = flatten("", viol, {})
    for k in known:
        if k.get("status") != "open" or k.get("property") != prop:
            continue
        ok = True
        for key, want in k.get("signature", {}).items():
            have = flat.get(key, None)
            if isinstance(want, list):
                ok = have in want
            elif isinstance(want, dict) and "contains" in want:
                ok = isinstance(have, str) and want["contains"] in have
            else:
                ok = have == want
            if not ok:
                break
        if ok:
            return k
    return None


def load_known():
    try:
        with open(KNOWN) as f:
            return json.load(f).get("findings", [])
    except (OSError, ValueError) as e:
        log(f"warning: cannot read {KNOWN}: {e}")
        return []


def replay_body(prop, v):
    return json.dumps({"property": prop, "clause": v["clause"], "detail": v["detail"], "facts": v["facts"],
                       "case": v["case"]}, indent=1)


# ------------------------------------------------------------------------------------------ campaign --------------
# The campaign is run by JOBS worker *processes* (the oracles are CPU-bound python).  Round r of the campaign is one
# instance of every example; worker w handles the rounds w, w+JOBS, w+2*JOBS, ... and, for each instance, runs the
# configurations one after the other: at most JOBS example processes at any time.  Every instance is addressed by
# (example, round) alone - see instance_at - so the instance sequence does not depend on the number of workers or on
# timing; only how far it is explored does.

def instance_at(ex, grid, seed, r):
    """the instance of round r of example `ex` -> (file_name, text, grid index or None), None = space exhausted.
    Examples with a bounded-exhaustive grid alternate grid / random instances until the grid is exhausted."""
    g = len(grid)
    if r < 2 * g and r % 2 == 0:
        name, text = grid[r // 2]
        return name, text, r // 2
    idx = (r - 1) // 2 if r < 2 * g else r - g
    inst = ex.random_instance(random.Random(f"{seed}/{ex.name}/{idx}"), idx)
    if inst is None:
        return None
    return inst[0], inst[1], None


def make_case(ex, file_name, text):
    """oracle + baseline of one instance -> the part of a case that does not depend on width / threads.
    Raises if the oracle crashes (harness error)."""
    t0 = time.perf_counter()
    value = ex.oracle(text, file_name)
    oracle_ms = (time.perf_counter() - t0) * 1000
    base = ex.baseline(text, file_name)
    # the file name is part of a srflp instance (clearance naming rule)
    ident = ex.name + "\0" + (file_name[:2] if ex.name == "srflp" else "") + "\0" + text
    return {"example": ex.name, "file_name": file_name, "instance_text": text, "expected_value": value,
            "expected_printed": ex.printed(value), "nontrivial": value is not None and value != base,
            "size": ex.size(text, file_name), "oracle_ms": oracle_ms,
            "digest": hashlib.sha1(ident.encode()).hexdigest()}


def configs(ex):
    return [(w, t) for w in WIDTHS for t in (THREADS if ex.has_threads else [None])]


def execute(ex, case, width, threads, workdir):
    """one execution of the binary -> (case with width/threads, verdict, payload, raw result)"""
    case = dict(case, width=width, threads=threads)
    path = os.path.join(workdir, case["file_name"]) if case["file_name"] else None
    cmd = ex.command(os.path.join(BIN_DIR, ex.name), path, case["instance_text"], width, threads)
    res = run_monitored(cmd, workdir)
    verdict, payload = judge(ex, case, res)
    return case, verdict, payload, res


def run_instance(ex, file_name, text, grid_index, r, workdir):
    """everything about one instance: oracle, all the configurations, verdicts -> message for the parent"""
    msg = {"kind": "instance", "example": ex.name, "round": r, "grid_index": grid_index, "runs": 0, "judged": 0,
           "violations": [], "inconclusive": [], "harness_errors": [], "sample": None, "digest": None,
           "nontrivial": False, "oracle_ms": 0.0}
    try:
        case = make_case(ex, file_name, text)
    except Exception as e:  # noqa: a bug of an oracle is a harness error, never a verdict
        msg["harness_errors"].append(f"{ex.name}: oracle / baseline crashed on {file_name}: {e!r}\n{text}")
        return msg
    msg.update(digest=case["digest"], nontrivial=case["nontrivial"], oracle_ms=case["oracle_ms"])
    path = os.path.join(workdir, file_name) if file_name else None
    if path:
        with open(path, "w") as f:
            f.write(text)
    try:
        for w, t in configs(ex):
            c, verdict, payload, _ = execute(ex, case, w, t, workdir)
            msg["runs"] += 1
            if verdict == "inconclusive":
                msg["inconclusive"].append(payload)
                continue
            if verdict == "harness_error":
                msg["harness_errors"].append(payload)
                continue
            msg["judged"] += 1
            if verdict == "violated":
                msg["violations"].append(payload)
            if case["nontrivial"] and msg["sample"] is None and r < 4 * JOBS:
                msg["sample"] = {"example": ex.name, "instance_text": text, "file_name": file_name, "width": w,
                                 "threads": t, "expected": case["expected_printed"], "verdict": verdict,
                                 "printed": payload if verdict == "held" else payload["facts"]["printed"]}
        # narrowing fact for wrong objectives: does the program agree with the oracle when the width is so large that
        # nothing is ever merged or truncated? yes => the defect lies in the relaxation / bound machinery of the example
        # (merge, arc relaxation, rough upper bound); no => in its model or parser. Known findings are keyed on it.
        wrong = [v for v in msg["violations"] if v["clause"] == "wrong_objective"]
        if wrong and ex.name != "golomb":
            _, verdict, payload, _ = execute(ex, case, 1000, 1 if ex.has_threads else None, workdir)
            msg["runs"] += 1
            agrees = verdict == "held"
            for v in wrong:
                v["facts"]["agrees_at_width_1000"] = agrees
    finally:
        if path:
            try:
                os.remove(path)
            except OSError:
                pass
    return msg


def worker(wid, nworkers, names, seed, tier, deadline, workdir, queue):
    try:
        examples = [exlab_problems.BY_NAME[n] for n in names]
        grids = {e.name: list(e.grid(tier) or []) for e in examples}
        active, r = list(examples), wid
        while active and time.time() < deadline:
            for ex in list(active):
                if time.time() >= deadline:
                    break
                try:
                    inst = instance_at(ex, grids[ex.name], seed, r)
                except Exception as e:  # noqa
                    queue.put({"kind": "error", "why": f"{ex.name}: generator crashed at round {r}: {e!r}"})
                    active.remove(ex)
                    continue
                if inst is None:
                    active.remove(ex)
                    continue
                queue.put(run_instance(ex, inst[0], inst[1], inst[2], r, workdir))
            r += nworkers
    except BaseException as e:  # noqa
        queue.put({"kind": "error", "why": f"worker {wid} crashed: {e!r}"})
    finally:
        queue.put({"kind": "done", "wid": wid})


class Stats:
    def __init__(self, grid_total):
        self.digests = set()
        self.nontrivial = set()
        self.runs = 0
        self.violations = 0
        self.oracle_ms_max = 0.0
        self.grid_total = grid_total
        self.grid_seen = set()

    def as_dict(self):
        d = {"instances": len(self.digests), "runs": self.runs, "nontrivial": len(self.nontrivial),
             "violations": self.violations, "oracle_ms_max": round(self.oracle_ms_max, 2)}
        if self.grid_total:
            d["grid_instances"] = len(self.grid_seen)
            d["grid_size"] = self.grid_total
            d["grid_exhausted"] = len(self.grid_seen) >= self.grid_total
        return d


def campaign(seed, tier, only, budget, workdir):
    examples = [e for e in exlab_problems.ALL if not only or e.name in only]
    stats = {e.name: Stats(sum(1 for _ in (e.grid(tier) or []))) for e in examples}
    out = {"evaluations": 0, "violations": [], "inconclusive": [], "harness_errors": [], "samples": {}}
    ctx = multiprocessing.get_context("fork")
    queue = ctx.Queue()
    t0 = time.time()
    procs = [ctx.Process(target=worker, daemon=True,
                         args=(w, JOBS, [e.name for e in examples], seed, tier, t0 + budget, workdir, queue))
             for w in range(JOBS)]
    for p in procs:
        p.start()
    running = len(procs)
    try:
        while running:
            try:
                msg = queue.get(timeout=2.0)
            except Exception:  # noqa: queue.Empty
                if not any(p.is_alive() for p in procs) and queue.empty():
                    out["harness_errors"].append(f"{running} worker process(es) died without reporting")
                    break
                continue
            if msg["kind"] == "done":
                running -= 1
                continue
            if msg["kind"] == "error":
                out["harness_errors"].append(msg["why"])
                continue
            st = stats[msg["example"]]
            st.runs += msg["runs"]
            out["evaluations"] += msg["runs"]
            st.oracle_ms_max = max(st.oracle_ms_max, msg["oracle_ms"])
            out["harness_errors"] += msg["harness_errors"]
            out["inconclusive"] += msg["inconclusive"]
            out["violations"] += msg["violations"]
            st.violations += len(msg["violations"])
            if msg["judged"]:
                st.digests.add(msg["digest"])
                if msg["nontrivial"]:
                    st.nontrivial.add(msg["digest"])
                if msg["grid_index"] is not None:
                    st.grid_seen.add(msg["grid_index"])
            if msg["sample"] is not None:
                cur = out["samples"].get(msg["example"])
                if cur is None or msg["round"] < cur[0]:
                    out["samples"][msg["example"]] = (msg["round"], msg["sample"])
    finally:
        for p in procs:
            p.join(timeout=5)
            if p.is_alive():
                p.terminate()
    out["stats"] = stats
    out["samples"] = {n: s for n, (_, s) in out["samples"].items()}
    return out


# ------------------------------------------------------------------------------------ reporting -------------------
def pick_for_replay(violations):
    """one violation per distinct failing INSTANCE (its first failing configuration; the other failing configurations
    are listed in facts.failing_configs), at most MAX_REPLAYS of them, as varied as possible: round-robin over the
    groups (example, clause), inside a group the smallest instances first - the poor man's shrinking: instances are
    tiny and plentiful, so the smallest failing one of a run is close to minimal."""
    groups = {}
    for v in violations:
        inst = (v["case"]["file_name"], v["case"]["instance_text"])
        groups.setdefault((v["facts"]["example"], v["clause"]), {}).setdefault(inst, []).append(v)
    ordered = {}
    for key, insts in groups.items():
        reps = []
        for vs in insts.values():
            vs.sort(key=lambda v: (v["case"]["width"] or 99, v["case"]["threads"] or 0))
            rep = dict(vs[0], facts=dict(vs[0]["facts"], failing_configs=[
                {"width": v["case"]["width"], "threads": v["case"]["threads"], "printed": v["facts"]["printed"]}
                for v in vs]))
            reps.append(rep)
        reps.sort(key=lambda v: (len(v["case"]["instance_text"]), v["case"]["instance_text"]))
        ordered[key] = reps
    chosen, k = [], 0
    while len(chosen) < MAX_REPLAYS and any(len(g) > k for g in ordered.values()):
        for key in sorted(ordered):
            if len(ordered[key]) > k and len(chosen) < MAX_REPLAYS:
                chosen.append(ordered[key][k])
        k += 1
    return chosen, sum(len(g) for g in ordered.values())


def conclude(prop, spec, tier, seed, out, only, t_start):
    known = load_known()
    new_viol, known_hits = [], {}
    for v in out["violations"]:
        k = match_known(prop, v, known)
        if k is not None:
            known_hits.setdefault(k["id"], [k, 0])
            known_hits[k["id"]][1] += 1
        else:
            new_viol.append(v)
    lines = []
    for kid, (k, n) in sorted(known_hits.items()):
        lines.append(f"KNOWN-FINDING: property={prop} {k['what_fails']} [{kid}; {n} occurrence(s) in this run]")
    chosen, failing_instances = pick_for_replay(new_viol)
    if chosen:
        os.makedirs(os.path.join(REPLAYS, prop), exist_ok=True)
    for v in chosen:
        body = replay_body(prop, v)
        path = os.path.join(REPLAYS, prop, hashlib.sha1(body.encode()).hexdigest()[:12] + ".json")
        with open(path, "w") as f:
            f.write(body)
        lines.append(f"VIOLATION property={prop} replay={path}")
        log(f"  -> {v['clause']}: {v['detail']} [{len(v['facts']['failing_configs'])} failing configuration(s) "
            f"of this instance]")
    if failing_instances > len(chosen):
        log(f"  ... and {failing_instances - len(chosen)} further failing instance(s) without a replay file")
    for why in out["inconclusive"][:5]:
        lines.append(f"INCONCLUSIVE property={prop} {why}")
    if len(out["inconclusive"]) > 5:
        lines.append(f"INCONCLUSIVE property={prop} ... {len(out['inconclusive'])} inconclusive executions in total")
    for h in out["harness_errors"][:5]:
        log("HARNESS-ERROR:", h)

    stats = out["stats"]
    samples = [out["samples"][n] for n in sorted(out["samples"])]
    if len(samples) > 6:                                # 6 of them, a different selection for different seeds
        start = seed % len(samples)
        samples = (samples + samples)[start:start + len(samples)][::2][:6]
    wall = time.time() - t_start
    nontrivial = sum(len(s.nontrivial) for s in stats.values())
    coverage = {
        "evaluations": out["evaluations"],
        "distinct_nontrivial": nontrivial,
        "rule": spec["rule"],
        "samples": samples if samples else [{"note": "no non-trivial instance was executed"}],
        "per_example": {n: s.as_dict() for n, s in stats.items()},
        "inconclusive": len(out["inconclusive"]),
        "known_findings": [{"id": kid, "occurrences": n} for kid, (k, n) in sorted(known_hits.items())],
        "instances": sum(len(s.digests) for s in stats.values()),
        "violating_executions": len(new_viol),
        "violating_instances": failing_instances,
        "widths": ["default" if w is None else w for w in WIDTHS], "threads": THREADS, "workers": JOBS,
    }
    evidence = {"property_id": prop, "tier": tier, "seed": seed, "level": spec.get("level", "exploration"),
                "coverage": coverage, "assumptions": spec.get("assumptions", []), "wall_s": round(wall, 2),
                "violations": len(new_viol)}
    if only:
        log(f"[--only {','.join(sorted(only))}: partial run, {EVIDENCE}/{prop}.json is left untouched]")
    else:
        os.makedirs(EVIDENCE, exist_ok=True)
        with open(os.path.join(EVIDENCE, f"{prop}.json"), "w") as f:
            json.dump(evidence, f, indent=1)
    for l in lines:
        print(l)
    log("[runs per example: " + " ".join(f"{n}:{s.runs}" for n, s in stats.items()) + "]")
    print(f"{prop} [{tier}, seed {seed}]: {out['evaluations']} evaluations on {coverage['instances']} instances of "
          f"{len(stats)} examples, {nontrivial} distinct non-trivial, {len(new_viol)} violation(s) on "
          f"{failing_instances} instance(s), {sum(n for _, n in known_hits.values())} known-finding occurrence(s), "
          f"{len(out['inconclusive'])} inconclusive, {wall:.1f}s")
    if new_viol:
        return 1
    if out["harness_errors"]:
        return 2
    if nontrivial < 2:
        log("fewer than 2 distinct non-trivial instances were evaluated: this is a broken check, not a pass")
        return 2
    return 0


# ------------------------------------------------------------------------------------------ replay ----------------
def replay_case(prop, path, workdir):
    """re-runs exactly the case of a replay file; the oracle is recomputed from the instance text.  Never writes
    the evidence file."""
    try:
        with open(path) as f:
            rep = json.load(f)
        c = rep["case"]
        ex = exlab_problems.BY_NAME[c["example"]]
        file_name, text = c.get("file_name"), c["instance_text"]
        width, threads = c.get("width"), c.get("threads")
    except (OSError, ValueError, KeyError, TypeError) as e:
        log(f"HARNESS-ERROR: cannot use replay file {path}: {e!r}")
        return 2
    if file_name and os.path.basename(file_name) != file_name:
        log(f"HARNESS-ERROR: replay file {path}: file_name must be a plain file name")
        return 2
    try:
        case = make_case(ex, file_name, text)
    except Exception as e:  # noqa
        log(f"HARNESS-ERROR: oracle crashed on the instance of {path}: {e!r}")
        return 2
    if file_name:
        with open(os.path.join(workdir, file_name), "w") as f:
            f.write(text)
    case, verdict, payload, res = execute(ex, case, width, threads, workdir)
    log(f"[replay {ex.name} width={width} threads={threads}: expected {case['expected_printed']}, "
        f"verdict {verdict}, rc {res['rc']}, {res['wall_s']:.2f}s]")
    if verdict == "violated":
        k = match_known(prop, payload, load_known())
        if k is not None:
            print(f"KNOWN-FINDING: property={prop} {k['what_fails']} [{k['id']}; 1 occurrence(s) in this run]")
            return 0
        log(f"  -> {payload['clause']}: {payload['detail']}")
        print(f"VIOLATION property={prop} replay={path}")
        return 1
    if verdict == "inconclusive":
        print(f"INCONCLUSIVE property={prop} {payload}")
        return 0
    if verdict == "harness_error":
        log("HARNESS-ERROR:", payload)
        return 2
    print(f"{prop} replay: held (printed {payload}, exhaustive enumeration {case['expected_printed']})")
    return 0


# ------------------------------------------------------------------------------------------- entry ----------------
def main(prop, spec, tier, seed, replay=None, only=None, budget=None):
    t_start = time.time()
    spec = dict(DEFAULT_SPEC, **(spec or {}))
    if tier not in ("quick", "thorough"):
        tier = "quick"
    ok, _ = build()
    if not ok:
        return 2
    workdir = os.path.join(WORK_ROOT, str(os.getpid()))
    # srflp's reader looks for "Cl" in the whole path, tsptw needs a parent directory name
    assert "Cl" not in workdir and os.path.basename(workdir)
    shutil.rmtree(workdir, ignore_errors=True)
    os.makedirs(workdir, exist_ok=True)
    try:
        if replay:
            return replay_case(prop, os.path.abspath(replay), workdir)
        if budget is None:
            budget = float(spec["budget"][tier])
        out = campaign(seed, tier, only, budget, workdir)
        return conclude(prop, spec, tier, seed, out, only, t_start)
    finally:
        shutil.rmtree(workdir, ignore_errors=True)
        try:
            os.rmdir(WORK_ROOT)                      # only succeeds when no other run is using it
        except OSError:
            pass


def cli(argv):
    tier, seed, replay, only, budget = "quick", 1, None, None, None
    i = 0
    while i < len(argv):
        a = argv[i]
        if a in ("--tier", "--seed", "--replay", "--only", "--budget") and i + 1 < len(argv):
            v = argv[i + 1]
            if a == "--tier":
                tier = v
            elif a == "--seed":
                seed = int(v)
            elif a == "--replay":
                replay = os.path.abspath(v)
            elif a == "--only":
                only = set(x for x in v.split(",") if x)
                unknown = only - set(exlab_problems.BY_NAME)
                if unknown:
                    log(f"unknown example(s) {sorted(unknown)}; known: {sorted(exlab_problems.BY_NAME)}")
                    return 2
            else:
                budget = float(v)
            i += 2
        else:
            log(__doc__)
            log(f"unknown or incomplete argument {a}")
            return 2
    return main("C16", None, tier, seed, replay, only, budget)


if __name__ == "__main__":
    sys.exit(cli(sys.argv[1:]))
