"""Sanitizer add-ons of the thorough tier (DESIGN §3.5): the same harness workloads under ThreadSanitizer and Miri.
Each add-on returns {evaluations, counters, violations, harness_errors, inconclusive, notes, distinct_nontrivial, ...}."""
import json, os, subprocess, time, re

VERIF = os.path.dirname(os.path.abspath(__file__))
HARNESS = os.path.join(VERIF, "harness")
WORK = os.path.join(VERIF, "work")
ENV = dict(os.environ, CARGO_NET_OFFLINE="true", CARGO_TERM_COLOR="never")


def _result(name):
    return {"addon": name, "evaluations": 0, "counters": {}, "violations": [], "harness_errors": [], "inconclusive": [],
            "notes": [], "distinct_nontrivial": 0}


def _load(path, res):
    try:
        part = json.load(open(path))
    except Exception as e:  # noqa
        res["harness_errors"].append({"why": f"{res['addon']}: no readable result file ({e})"})
        return None
    res["evaluations"] += part["evaluations"]
    res["distinct_nontrivial"] += part.get("distinct_nontrivial_local", 0) + part.get("nt_extra", 0)
    for k, v in part["counters"].items():
        res["counters"][f"{res['addon']}:{k}"] = v
    res["violations"] += part["violations"]
    res["harness_errors"] += part["harness_errors"]
    return part


# ----------------------------------------------------------------------------------------------------------------
# ThreadSanitizer
# ----------------------------------------------------------------------------------------------------------------
def _tsan_build(res):
    env = dict(ENV, CARGO_TARGET_DIR=os.path.join(VERIF, "target", "tsan"), RUSTFLAGS="-Zsanitizer=thread")
    t0 = time.time()
    r = subprocess.run(["cargo", "+nightly", "build", "--offline", "--quiet", "-Zbuild-std", "--target", "x86_64-unknown-linux-gnu"],
                       cwd=HARNESS, env=env, stdout=subprocess.PIPE, stderr=subprocess.STDOUT, text=True)
    if r.returncode != 0:
        res["harness_errors"].append({"why": "TSan build failed: " + r.stdout[-1500:]})
        return None
    res["notes"].append(f"tsan build {time.time()-t0:.0f}s")
    exe = os.path.join(VERIF, "target", "tsan", "x86_64-unknown-linux-gnu", "debug", "vh")
    # the instrument must be live: a deliberately racy program has to be reported
    r = subprocess.run([exe, "--race-selftest"], env=dict(ENV, TSAN_OPTIONS="halt_on_error=0 exitcode=66"), stdout=subprocess.PIPE, stderr=subprocess.PIPE, text=True)
    if "WARNING: ThreadSanitizer: data race" not in r.stderr:
        res["harness_errors"].append({"why": "TSan self test: the deliberate data race was not reported (instrument not effective)"})
        return None
    res["counters"][f"{res['addon']}:selftest_race_reported"] = 1
    return exe


def _tsan_run(name, prop, args, seed, secs):
    res = _result(name)
    exe = _tsan_build(res)
    if exe is None:
        return res
    out = os.path.join(WORK, f"{name}_{os.getpid()}.json")
    t0 = time.time()
    r = subprocess.run([exe] + args + ["--seed", str(seed), "--shard", "0/1", "--out", out, "--budget", str(secs)], cwd=VERIF,
                       env=dict(ENV, TSAN_OPTIONS="halt_on_error=0 exitcode=66 history_size=4"), stdout=subprocess.DEVNULL, stderr=subprocess.PIPE, text=True,
                       timeout=secs * 4 + 300)
    _load(out, res)
    try:
        os.remove(out); os.remove(out[:-5] + ".nt")
    except OSError:
        pass
    reports = r.stderr.split("==================")
    races = [b for b in reports if "WARNING: ThreadSanitizer" in b]
    res["counters"][f"{name}:tsan_reports"] = len(races)
    res["notes"].append(f"{name}: {res['evaluations']} executions under ThreadSanitizer in {time.time()-t0:.0f}s, {len(races)} report(s)")
    seen = set()
    for b in races:
        # deduplicate by the first frames that lie in ddo / dashmap / parking_lot
        frames = re.findall(r"#\d+ (\S+) .*?(/repo/\S+|registry/src/\S+|/verif/harness/\S+)", b)
        key = tuple(frames[:2])
        if key in seen:
            continue
        seen.add(key)
        res["violations"].append({"property": prop, "clause": "tsan_report", "detail": "ThreadSanitizer report: " + b.strip()[:1500],
                                  "facts": {"sanitizer": "tsan", "frames": [list(f) for f in frames[:4]]}, "case": {"kind": "tsan", "args": args, "seed": seed}})
    if r.returncode not in (0, 66):
        res["harness_errors"].append({"why": f"{name}: exit code {r.returncode}: {r.stderr[-800:]}"})
    return res


# ----------------------------------------------------------------------------------------------------------------
# Miri
# ----------------------------------------------------------------------------------------------------------------
def _miri_run(name, prop, args, seed, seeds=1):
    res = _result(name)
    env = dict(ENV, CARGO_TARGET_DIR=os.path.join(VERIF, "target", "miri"),
               MIRIFLAGS="-Zmiri-disable-isolation -Zmiri-permissive-provenance")
    t0 = time.time()
    for k in range(seeds):
        out = os.path.join(WORK, f"{name}_{os.getpid()}_{k}.json")
        flags = env["MIRIFLAGS"] + f" -Zmiri-seed={seed * 100 + k}"
        r = subprocess.run(["cargo", "+nightly", "miri", "run", "--offline", "--quiet", "--"] + args +
                           ["--small", "--seed", str(seed + k), "--shard", "0/1", "--out", out, "--budget", "1000000"],
                           cwd=HARNESS, env=dict(env, MIRIFLAGS=flags), stdout=subprocess.DEVNULL, stderr=subprocess.PIPE, text=True, timeout=3600)
        if "Undefined Behavior" in r.stderr or "data race" in r.stderr.lower():
            i = r.stderr.find("error: Undefined Behavior")
            res["violations"].append({"property": prop, "clause": "miri_undefined_behaviour", "detail": "Miri: " + r.stderr[max(i, 0):max(i, 0) + 1500],
                                      "facts": {"sanitizer": "miri"}, "case": {"kind": "miri", "args": args, "seed": seed + k, "miri_seed": seed * 100 + k}})
        elif r.returncode != 0:
            res["harness_errors"].append({"why": f"{name}: miri exited with {r.returncode}: {r.stderr[-800:]}"})
        else:
            _load(out, res)
        for f in (out, out[:-5] + ".nt"):
            try:
                os.remove(f)
            except OSError:
                pass
    res["notes"].append(f"{name}: {res['evaluations']} executions under Miri ({seeds} interpreter seed(s)) in {time.time()-t0:.0f}s")
    return res


def run(addon, prop, spec, seed):
    if addon == "tsan_c18":
        return _tsan_run(addon, prop, ["c18", "--concurrent-only"], seed, 60)
    if addon == "tsan_par":
        return _tsan_run(addon, prop, [spec["cmd"], "--stress-only"], seed, 90)
    if addon == "miri_c11":
        return _miri_run(addon, prop, ["c11"], seed, 2)
    if addon == "miri_c18":
        return _miri_run(addon, prop, ["c18", "--concurrent-only"], seed, 2)
    if addon == "miri_par":
        return _miri_run(addon, prop, [spec["cmd"]], seed, 3)
    r = _result(addon)
    r["harness_errors"].append({"why": f"unknown add-on {addon}"})
    return r
