"""Per property: engine, budgets (seconds of campaign loop per shard), evidence level, the generation /
non-triviality rule and the assumptions. Kept next to the dispatcher so that evidence files are self describing."""

COMMON_ASSUMPTIONS = [
    "the oracle of the instance family (explicit backward DP written for the harness, independent from the decision-diagram code) is right",
    "the instance families are well-formed by construction (merge and arc relaxation over-approximate, rough bound and dominance admissible)",
    "what was not executed is not covered: the verdict is 'held on the executions counted here', nothing more",
]

CHECKS = {
    "C01": {
        "cmd": "c01", "flavours": ["checked", "release"], "level": "exploration",
        "engine_name": "vh-seq", "design_ref": "DESIGN.md §4 C01",
        "technique": "runtime monitoring: real sequential solver runs judged by a reference-model oracle (exhaustive/DP optimum), non-termination witness monitor on the fringe",
        "level_text": "Exploration: hundreds of thousands of real SequentialSolver executions per run (bounded-exhaustive on a tiny knapsack grid x the full configuration product, random beyond) each compared with the exhaustive/DP optimum of the same instance; both an overflow-checked and a plain release build of ddo are exercised. Right level because the property quantifies over all models and configurations: only sampling + small-scope exhaustiveness is available to a run-time oracle.",
        "level_note": "Trusted: the harness oracles (backward DP per family) and the well-formedness of the generated models. Not covered: models outside the three families, instances larger than ~12 variables, user-defined fringes/rankings other than MaxUB.",
        "budget": {"quick": 25, "thorough": 420},
        "rule": "real SequentialSolver runs (NoCutoff) on (a) the bounded-exhaustive knapsack grid n<=3, w,p in {1,2}, cap<=4 x {LEL,frontier,pooled} x cache on/off x {simple,no-dup fringe} x widths 1..3 x rub {none,exact} x dominance {none,capacity} (a 1/7 slice in the quick tier) and (b) random instances of families T (table DP with powerset relaxation and deferred bonus; depth-free, permuted order, irrelevance, absorbing, re-convergent variants), K (knapsack) and P (set packing with dynamic variable order and long arcs) x random configurations (width heuristics FixedWidth 1..4, NbUnassignedWidth, Times, DivBy; rub none/exact/slack; dominance none/exact/weak; three state rankings); verdict by the exhaustive/DP optimum of the same instance. Non-trivial = the branch-and-bound popped >= 2 sub-problems and squashed (merged or truncated) at least one layer; distinct by (instance hash, configuration, variant).",
        "assumptions": COMMON_ASSUMPTIONS + ["non-termination is decided by a witness: the same sub-problem re-enqueued itself 200 times while being processed (then the cutoff is fired to end the run); a pop budget exhausted without witness is inconclusive"],
    },
}

HOOK_COMMITS = ["da0cac8"]

ENGINES = [
    {"name": "vh-seq", "path": "/verif/harness", "serves_properties": [], "kind_free_text": "Rust harness `vh`: real sequential solver / diagram / data-structure executions under recording wrappers (MonDD, MonFringe, MonCache, CountingCutoff) judged by reference-model oracles"},
    {"name": "vh-sched", "path": "/verif/harness/src/sched.rs", "serves_properties": [], "kind_free_text": "controlled scheduler over the real threads of the parallel solver (hook events of feature xgillard_ddo_verif): replayable schedules, bounded pre-emption DFS, PCT, random; exact deadlock state"},
    {"name": "vh-stress", "path": "/verif/harness", "serves_properties": [], "kind_free_text": "free-running threads with injected delays, /proc quiescence watchdog, TSan and Miri builds of the same workloads"},
    {"name": "exlab", "path": "/verif/exlab", "serves_properties": [], "kind_free_text": "python3: instance generators + brute-force oracles for the 12 example programs, run against release binaries built from the working tree"},
]
for _e in ENGINES:
    _e["serves_properties"] = sorted(p for p, c in CHECKS.items() if c.get("engine_name") == _e["name"])

ALL_IDS = ["C%02d" % i for i in range(1, 21)]
NOT_APPLICABLE = [
    {"property_id": p, "reason": "check not built yet in this revision of /verif (design in DESIGN.md §4); it is not claimed until its campaign exists"}
    for p in ALL_IDS if p not in CHECKS
]
