"""Per property: engine, budgets (seconds of campaign loop per shard), evidence level, the generation /
non-triviality rule and the assumptions. Kept next to the dispatcher so that evidence files are self describing."""

COMMON_ASSUMPTIONS = [
    "the oracle of the instance family (explicit backward DP written for the harness, independent from the decision-diagram code) is right",
    "the instance families are well-formed by construction (merge and arc relaxation over-approximate, rough bound and dominance admissible)",
    "what was not executed is not covered: the verdict is 'held on the executions counted here', nothing more",
]

CHECKS = {
    "C01": {
        "cmd": "c01", "flavours": ["checked", "release"], "level": "exploration",
        "engine_name": "vh-seq", "design_ref": "DESIGN.md §4 C01",
        "technique": "runtime monitoring: real sequential solver runs judged by a reference-model oracle (exhaustive/DP optimum), non-termination witness monitor on the fringe",
        "level_text": "Exploration: hundreds of thousands of real SequentialSolver executions per run (bounded-exhaustive on a tiny knapsack grid x the full configuration product, random beyond) each compared with the exhaustive/DP optimum of the same instance; both an overflow-checked and a plain release build of ddo are exercised. Right level because the property quantifies over all models and configurations: only sampling + small-scope exhaustiveness is available to a run-time oracle.",
        "level_note": "Trusted: the harness oracles (backward DP per family) and the well-formedness of the generated models. Not covered: models outside the four families (T, K, P, Q), instances larger than ~44 variables, user-defined fringes/rankings other than MaxUB.",
        "budget": {"quick": 25, "thorough": 420},
        "rule": "real SequentialSolver runs (NoCutoff) on (a) the bounded-exhaustive knapsack grid n<=3, w,p in {1,2}, cap<=4 x {LEL,frontier,pooled} x cache on/off x {simple,no-dup fringe} x widths 1..3 x rub {none,exact} x dominance {none,capacity} (a 1/7 slice in the quick tier) and (b) random instances of families T (table DP with powerset relaxation and deferred bonus; depth-free, permuted order, irrelevance, absorbing, re-convergent variants), K (knapsack), P (set packing with dynamic variable order and long arcs) and Q (common-subsequence style position vectors, impacted only by the variable matching the first position) x random configurations (width heuristics FixedWidth 1..4, NbUnassignedWidth, Times, DivBy; rub none/exact/slack; dominance none/exact/weak; three state rankings); verdict by the exhaustive/DP optimum of the same instance. Non-trivial = the branch-and-bound popped >= 2 sub-problems and squashed (merged or truncated) at least one layer; distinct by (instance hash, configuration, variant).",
        "assumptions": COMMON_ASSUMPTIONS + ["non-termination is decided by a witness: the same sub-problem re-enqueued itself 200 times while being processed (then the cutoff is fired to end the run); a pop budget exhausted without witness is inconclusive"],
    },

    "C06": {
        "cmd": "c06", "flavours": ["checked", "release"], "level": "exploration", "engine_name": "vh-seq", "design_ref": "DESIGN.md §4 C06",
        "budget": {"quick": 20, "thorough": 360},
        "technique": "runtime monitoring: direct driver of the real diagram implementations through a recording wrapper (MonDD); value-to-go oracle h* + model-side solution replay",
        "rule": "direct diagram driver: for random instances of families T/K/P/Q (incl. long-arc variants) the harness enumerates reachable sub-problem roots (compile relaxed, drain the cut-set, recurse; <= 8 roots) and compiles every root with comp types {relaxed,restricted,exact} x widths 1..4 x incumbents {none, opt-d, opt, opt+d, global opt-1} on a fresh object and on a reused object whose history holds earlier compilations of other roots/types and compilations interrupted by a cutoff; x {LEL, frontier, pooled}; empty cache and dominance. Checked on every relaxed compilation: best_value >= sub-problem optimum when it beats the incumbent; when is_exact(): best exact value == optimum (if it beats the incumbent), never above it, best exact solution replays to exactly that value and extends the root path; Completion agrees with the accessors. Non-trivial = relaxed compilation with >= 1 merge; distinct by (instance, diagram type, root, width, incumbent).",
        "level_text": "Exploration: ~10^5..10^7 real compilations per run checked against the exact value-to-go of the instance; covers fresh and reused diagram objects including histories with interrupted compilations. The property quantifies over all sub-problems/widths/incumbents/histories, so a run-time oracle can only sample them; tiny instances make the incumbent and width grids dense.",
        "level_note": "Trusted: h* tables of the harness families, the replay functions. The incumbent-relative clauses are only demanded when the sub-problem optimum beats the incumbent (otherwise the rough bound may legitimately prune everything).",
        "assumptions": COMMON_ASSUMPTIONS + ["'in isolation' = EmptyCache and EmptyDominanceChecker"],
    },
    "C07": {
        "cmd": "c07", "flavours": ["checked", "release"], "level": "exploration", "engine_name": "vh-seq", "design_ref": "DESIGN.md §4 C07",
        "budget": {"quick": 20, "thorough": 360},
        "technique": "runtime monitoring: direct driver of the real diagram implementations (MonDD); value-to-go oracle h* + model-side solution replay",
        "rule": "same driver and space as C06. Checked on every restricted / exact-mode compilation: best_value <= sub-problem optimum; best_solution replays (model side) to exactly best_value and extends the root path; if the restricted diagram declares itself exact, or the compilation is in exact mode (any max_width, including 1), and the sub-problem optimum beats the incumbent, best_value == optimum. Non-trivial = restricted compilation in which a layer had more candidates than max_width (truncated), or an exact-mode compilation; distinct by (instance, diagram type, root, width, incumbent, type).",
        "level_text": "Exploration: every restricted and exact-mode compilation of the C06 driver (10^5..10^7 per run) compared with the exact sub-problem optimum and replayed on the model.",
        "level_note": "Trusted: h* tables and replay functions of the harness families.",
        "assumptions": COMMON_ASSUMPTIONS + ["'in isolation' = EmptyCache and EmptyDominanceChecker"],
    },
    "C08": {
        "cmd": "c08", "flavours": ["checked", "release"], "level": "exploration", "engine_name": "vh-seq", "design_ref": "DESIGN.md §4 C08",
        "budget": {"quick": 20, "thorough": 360},
        "technique": "runtime monitoring: MonDD intercepts drain_cutset; replay oracle, h* oracle and explicit enumeration of the improving completions of the sub-problem (coverage)",
        "rule": "same driver as C06 (40% long-arc instances). For every inexact relaxed compilation the handed-out cut-set is checked: (i) the path of every node replays from the problem root to its state with its value at its depth (skipped variables only where the state is not impacted); (ii) depth strictly greater than the compiled root's; (iii) ub >= value + h* whenever that beats the incumbent; (iv) coverage: static-order families - explicit DFS over all completions of the root whose value beats max(incumbent, best exact value) (pruned with h*), each must visit a handed-out (state, depth); dynamic-order family P - value level: the best completion through the cut-set reaches the sub-problem optimum. Non-trivial = inexact relaxed compilation handing out >= 2 nodes; distinct by (instance, diagram, root, width, incumbent).",
        "level_text": "Exploration with an exhaustive inner oracle: each sampled compilation has its cut-set checked against *all* improving completions of its sub-problem (explicit enumeration on tiny instances).",
        "level_note": "Trusted: h*, replay. Coverage enumeration budget 200k nodes per cut-set (exhaustion counted, never a verdict).",
        "assumptions": COMMON_ASSUMPTIONS + ["'in isolation' = EmptyCache and EmptyDominanceChecker"],
    },
    "C10": {
        "cmd": "c10", "flavours": ["checked", "release"], "level": "exploration", "engine_name": "vh-seq", "design_ref": "DESIGN.md §4 C10",
        "budget": {"quick": 30, "thorough": 300},
        "technique": "runtime monitoring: real SimpleDominanceChecker against a naive recorded-list Pareto model (exhaustive short query sequences + random long ones); differential solver runs with/without checker judged by the optimum",
        "rule": "(a) real SimpleDominanceChecker over a test Dominance (2 keys + one key-less state, coordinates {0,1,2}x{0,1}, values {0,1,2}, use_value on and off): every query sequence up to length 3 (quick) / 4 (thorough) over the 37-query universe, and random sequences of 5..200 queries over two depths; reference = list of all states presented so far: dominated iff some presented state of the same key/depth is >= everywhere and > somewhere; threshold >= value and the state presented at the threshold is dominated by the reference; comparator consistency for all pairs (partial_cmp vs reference, cmp ranks a dominating state first). (b) solver level: families T and K with exact and weakened admissible rules, sequential, free-running parallel and parallel under the controlled scheduler (random schedules with the dominance queries and cache operations as yield points), same configuration with and without checker vs the optimum. Non-trivial: (a) sequence with >= 1 dominated verdict and >= 1 eviction, (b) run in which >= 1 node was discarded by dominance (counted by a wrapper).",
        "level_text": "Exploration, exhaustive over short query sequences on a small alphabet; solver-level differential runs judged by the exhaustive optimum.",
        "level_note": "Trusted: the naive reference (transitivity of dominance makes 'all presented' equivalent to 'Pareto front').",
        "assumptions": COMMON_ASSUMPTIONS,
    },
    "C11": {
        "cmd": "c11", "flavours": ["checked", "release"], "level": "exploration", "engine_name": "vh-seq", "design_ref": "DESIGN.md §4 C11",
        "budget": {"quick": 25, "thorough": 300},
        "addons": ["miri_c11"],
        "technique": "runtime monitoring: operation histories with unique ids on the real SimpleFringe / NoDupFringe checked against a multiset / (state,depth)-map reference (exhaustive short histories + random long ones); solver-level differential NoDup vs Simple vs optimum; Miri on the same histories (thorough)",
        "rule": "every pushed sub-problem carries a unique id in its path, so each pop identifies the push it returns. (a) all histories up to length 5 (quick) / 6 (thorough) over {push(state in {0,1}, depth in {0,1}, value in {1,2}, ub in {2,3}), pop, clear} on both fringes with MaxUB; (b) random histories of 200 / 2000 operations over 5 states x 3 depths; reference: plain vector for SimpleFringe, map keyed by (state, depth) for NoDupFringe (survivor = larger value with that value's path, max ub); checks: pop returns a comparator-maximal element of the reference, len()/is_empty() agree after every operation, nothing lost or invented (final drain), no coalescing across different (state, depth). (c) solver level: depth-free / long-arc models solved with both fringes vs the optimum. Non-trivial = NoDup history with >= 1 coalescing push and >= 1 pop after it (solver level: depth-free model whose fringe held pending nodes).",
        "level_text": "Exploration, exhaustive over all short histories of a small alphabet (both fringes), random long histories for the recycle bin / position table paths.",
        "level_note": "Trusted: the reference models. Pop-order ties accept any comparator-maximal element.",
        "assumptions": COMMON_ASSUMPTIONS,
    },
    "C12": {
        "cmd": "c12", "flavours": ["checked"], "level": "exploration", "engine_name": "vh-seq", "design_ref": "DESIGN.md §4 C12",
        "budget": {"quick": 20, "thorough": 300},
        "technique": "runtime monitoring: online checker of a trace specification over the callbacks recorded by wrappers around Problem / Relaxation",
        "rule": "every compilation of (a) the direct diagram driver of C06 and (b) real sequential solver runs (all configurations, cache and dominance included) is recorded through RecProblem/RecRelax and checked: transition_cost(src,dst,d) only with d emitted by the model for (var(d), src) and dst == transition(src,d) (recomputed); relax(src,dst,merged,d,cost) with the same, cost == current cost of that arc, merged == state returned by the last merge of this layer, that merge had >= 2 inputs all of the current layer and containing dst; for_each_in_domain only for the variable last returned by next_variable and for states of the current layer (or the merged state); next_variable depth == root depth + number of preceding calls. Family T's deferred-bonus relaxation makes relax results depend on dst and merged. Non-trivial = compilation with >= 1 relax call; distinct by (instance, diagram, root, width, incumbent, type).",
        "level_text": "Exploration: the trace specification is checked online on every one of 10^5..10^7 compilations per run (3 diagram types x 3 compilation types).",
        "level_note": "Trusted: the recording wrappers (they only clone arguments and delegate).",
        "assumptions": COMMON_ASSUMPTIONS,
    },
    "C13": {
        "cmd": "c13", "flavours": ["checked"], "level": "exploration", "engine_name": "vh-seq", "design_ref": "DESIGN.md §4 C13",
        "budget": {"quick": 20, "thorough": 240},
        "technique": "runtime monitoring: per-layer expansion counter on the recorded callbacks (for_each_in_domain calls between two next_variable calls); exhaustive grid over the width combinators",
        "rule": "models in which every state is impacted by every variable (families T without irrelevance, K); every layer of every restricted compilation must expand <= max_width states, every layer of a relaxed compilation except the root layer and the first below it likewise (expansions = for_each_in_domain calls seen by the wrapper between two next_variable calls); direct driver (widths 1..4) + solver runs (widths 1..5, NbUnassigned, Times, DivBy), incl. absorbing-state instances that hit the recycled merged node path. Grid: Times(k, X) k in 0..5 and DivBy(k, X) k in 1..5 over FixedWidth(0..20) and NbUnassignedWidth at depths 0..20 must return >= 1 (exhaustive). Non-trivial = compilation with a layer whose candidate count exceeded max_width.",
        "level_text": "Exploration over millions of layers; exhaustive for the combinator grid.",
        "level_note": "Counts expansions (the observation point named by the property), not bound evaluations.",
        "assumptions": COMMON_ASSUMPTIONS,
    },
    "C17": {
        "cmd": "c17", "flavours": ["checked", "release"], "level": "exploration", "engine_name": "vh-seq", "design_ref": "DESIGN.md §4 C17",
        "budget": {"quick": 8, "thorough": 60},
        "technique": "runtime monitoring: the real default method Solver::gap executed on a stub exposing chosen bounds (exhaustive grid + random pairs) and on real solvers after complete / cut-off runs; arithmetic predicate on the returned f32",
        "rule": "all 120 pairs lb <= ub over {MIN, MIN+1, -2^62, -1e9, -1000, -2, -1, 0, 1, 2, 1000, 1e9, 2^62, MAX-1, MAX} (exhaustive), random pairs of every magnitude incl. lb = ub, ub = lb+1, ub = -lb, one bound 0; gap() of real sequential / parallel solvers after complete and cut-off runs of family T instances (optimum 0, negative, infeasible). Predicate: not NaN, >= 0, == 1 while a bound is infinite, == 0 iff lb == ub, <= 1 when both bounds have the same sign, no panic. Non-trivial = pair with finite, different bounds (distinct by pair), or a solver run.",
        "level_text": "Exploration, exhaustive on the boundary grid; the property is a pure function of two integers so the grid + random magnitudes cover its branches.",
        "level_note": "Checked builds turn arithmetic overflow inside gap() into a panic (= violation).",
        "assumptions": ["the predicate is the literal reading of the property statement"],
    },
    "C18": {
        "cmd": "c18", "flavours": ["checked"], "level": "exploration", "engine_name": "vh-stress", "design_ref": "DESIGN.md §4 C18",
        "budget": {"quick": 25, "thorough": 300},
        "addons": ["tsan_c18", "miri_c18"],
        "technique": "runtime monitoring: sequential spec by exhaustive operation sequences against a naive model; concurrent histories of 2..16 real threads with invocation/response stamps and unique written values, checked offline per key (linear-time max-register linearizability conditions; necessary conditions + final-state equivalence for the dominance store); TSan and Miri on the same workloads (thorough)",
        "rule": "(a) every operation sequence up to length 4 (quick) / 5 (thorough) over {update(2 states x 2 depths x 3 values x explored), get, clear_layer, clear} on the real SimpleCache vs 'list of updates since the last clear; answer = lexicographic max (value, explored)', all keys compared after every operation, must_explore (default method) vs the model; random sequences of both stores. (b) concurrent: 2..16 threads released by a spinning barrier hammer 1..3 keys; every written value is unique (thread, counter); per key: a get must return a value written by an update invoked before the get's response, >= every update completed before its invocation, gets ordered in real time never decrease, final value = max of all updates; clear_layer of another layer leaves the traffic layers intact; dominance store: a dominated answer needs a dominating entry invoked before the response (also at the threshold), a not-dominated answer must have no dominating entry completed before the invocation, and after quiescence the store answers the whole universe as the Pareto front of everything presented. Non-trivial = concurrent history with >= 1 pair of overlapping calls of different threads on the same key (measured from the stamps), or a sequence with >= 2 updates of one key.",
        "level_text": "Exploration: exhaustive for the sequential spec on a small alphabet; thousands of stamped concurrent histories with millions of measured overlapping same-key call pairs per run; sanitizers add data-race / UB detection in dashmap as driven by ddo.",
        "level_note": "The concurrent conditions are necessary conditions of linearizability (no false alarm possible), sufficient for the max-register; real-thread histories are not replayable exactly (the replay command re-runs the workload 200 times).",
        "assumptions": ["stamps come from one global SeqCst counter taken immediately before the call and after the reply"],
    },

    "C02": {
        "cmd": "c02", "flavours": ["checked", "release"], "level": "exploration", "engine_name": "vh-seq", "design_ref": "DESIGN.md §4 C02",
        "budget": {"quick": 20, "thorough": 300},
        "technique": "runtime monitoring: model-side replay of the reported solution + accessor consistency predicate over real solver runs (sequential, cut off at a poll, parallel under random/PCT schedules, free-running threads)",
        "rule": "random instances/configurations as C01; four kinds of runs: sequential uninterrupted, sequential cut off at a random poll, parallel under the controlled scheduler (random / PCT schedules, 1..3 workers, optionally cut off), parallel free-running / delay-injected with 2..8 threads. Predicate after maximize(): value present iff solution present; Completion.best_value == best_value() == best_lower_bound(); the solution replays on the model (one decision per variable, each in the domain of its variable in the state reached, skipped variables only where irrelevant) to exactly the value; after an uninterrupted run best_upper_bound() == value. Non-trivial = run in which compilations saw the incumbent improve >= 2 times, at least once right after a relaxed compilation (the best exact path of a relaxed diagram became the incumbent); distinct by (instance, configuration, schedule signature).",
        "level_text": "Exploration: 10^5 runs per quick run across the four execution modes, each verdict independent of the optimum (pure replay), so it also covers interrupted runs.",
        "level_note": "Trusted: replay functions of the families. Parallel part needs the hooks.",
        "assumptions": COMMON_ASSUMPTIONS,
    },
    "C03": {
        "cmd": "c03", "flavours": ["checked", "release"], "level": "exploration", "engine_name": "vh-sched", "design_ref": "DESIGN.md §4 C03",
        "budget": {"quick": 30, "thorough": 600},
        "addons": ["tsan_par", "miri_par"],
        "technique": "runtime monitoring under a controlled scheduler: the real ParallelSolver is driven through replayable schedules of its critical sections (bounded-deviation DFS, PCT, random) and judged by the exhaustive optimum; plus delay-injected free-running stress; TSan and Miri on the same workload (thorough)",
        "rule": "tiny instances whose sequential B&B explores 3..40 sub-problems (families T/K/P/Q, all diagram types, cache on/off, both fringes, widths 1..2, 1..4 workers). Per (instance, configuration): stateless DFS over all schedules deviating at most 1 (quick) / 2 (thorough) times from a default policy (sticky or rotating), capped at 60/400 schedules, + 6/20 random + 3/10 PCT schedules; yield points = every acquisition of the critical mutex, condvar wait/notify, cutoff polls (per layer) and optionally cache reads/writes and dominance queries. A quarter of the cases change the thread count through with_nb_threads after construction. A quarter of the shards run free threads (2..16) with injected delays on small instances. Verdict: is_exact and value == exhaustive optimum, no panic. Non-trivial = schedule in which >= 2 different workers processed >= 1 node each; distinct by (instance, configuration, hash of the (worker, site) grant sequence).",
        "level_text": "Exploration of interleavings of the real threads: thousands of distinct schedules per run, exhaustive within the deviation bound on each tiny instance, each replayable from its grant list.",
        "level_note": "Interleavings inside one compilation are at layer granularity (cutoff poll, cache operations); finer interleavings of DashMap operations only through stress/TSan/Miri. Needs the hooks (feature xgillard_ddo_verif).",
        "assumptions": COMMON_ASSUMPTIONS + ["between two scheduling decisions exactly one worker makes progress; woken waiters only re-acquire the mutex and return Starvation before their next yield"],
    },
    "C04": {
        "cmd": "c04", "flavours": ["checked", "release"], "level": "exploration", "engine_name": "vh-sched", "design_ref": "DESIGN.md §4 C04",
        "budget": {"quick": 30, "thorough": 600},
        "addons": ["tsan_par"],
        "technique": "runtime monitoring under a controlled scheduler: exact deadlock state (quiescent, nobody enabled, somebody parked), worker-crash event, livelock witness on the fringe; /proc quiescence watchdog for free-running threads",
        "rule": "schedule exploration as C03 x thread-count pairs (construction n0 in 1..4, with_nb_threads(n1) in 1..4 incl. n1 > n0 and n1 < n0; up to 16 free-running) x cutoff firing at a random poll index of the reference run (half of the cases). Violation: scheduler deadlock state, a worker exits by panic, the non-termination witness (a sub-problem re-enqueued itself 200 times), or (consequence of a premature completion) an uninterrupted run returning a non-optimal value; free-running: every task asleep and no CPU tick for 3 s before maximize() returned. A step budget exhausted without witness is inconclusive. Non-trivial = schedule in which a worker parked, or a worker with id >= n0 obtained a node, or the cutoff fired after >= 2 workers processed nodes; distinct by (instance, configuration, grant sequence).",
        "level_text": "Exploration: 'every explored schedule ends with all workers exited and maximize() returning'; deadlock is decided exactly by the scheduler state machine, not by a clock.",
        "level_note": "Liveness is restated as reachability of the deadlock state / livelock witness within the explored schedules. A deadlock forces the shard process to exit (threads cannot be unwound); the dispatcher resumes the shard after the failing case.",
        "assumptions": COMMON_ASSUMPTIONS + ["parking_lot condvars have no spurious wake-ups"],
    },
    "C05": {
        "cmd": "c05", "flavours": ["checked", "release"], "level": "fault_enumeration", "engine_name": "vh-sched", "design_ref": "DESIGN.md §4 C05",
        "budget": {"quick": 30, "thorough": 600},
        "technique": "fault enumeration at run time: a counting Cutoff fires at every poll index of the uninterrupted run (x schedules for the parallel solver); reported bounds compared with the exhaustive optimum, solution replayed",
        "rule": "sequential (half of the shards): for every random instance/configuration one reference run counts the cutoff polls K, then every k in 1..K+1 is run (exhaustive over crash points). Parallel: tiny instances, 1..3 workers, the cutoff index k steps through 1..K+2 (every k in the thorough tier, ~12 evenly spaced in the quick tier) x {bounded-deviation DFS (6/25 schedules), 3/8 random, 1 PCT}. Predicate: best_lower_bound <= optimum <= best_upper_bound (infeasible: lb == MIN), reported solution feasible with value == lb, is_exact only if value == optimum. Non-trivial = cut-off run whose reported bounds differ from the final answer (the cutoff fired while work was open); distinct by (instance, configuration, k, schedule signature).",
        "level_text": "Fault enumeration: every crash point (poll index) of every sampled run is injected; for the parallel solver crash points are crossed with explored schedules.",
        "level_note": "Crash points are the polls of the Cutoff (once per layer of every compilation): the only places where the library observes the cutoff.",
        "assumptions": COMMON_ASSUMPTIONS,
    },
    "C09": {
        "cmd": "c09", "flavours": ["checked", "release"], "level": "exploration", "engine_name": "vh-sched", "design_ref": "DESIGN.md §4 C09",
        "budget": {"quick": 25, "thorough": 480},
        "technique": "runtime monitoring: differential runs SimpleCache vs EmptyCache judged by the exhaustive optimum; MonCache exercise counters; parallel part under the controlled scheduler with cache reads/writes as yield points",
        "rule": "re-convergent instances (family T with 2..3 base states and no bonus, knapsack with few distinct weights, sparse set-packing; depth-free and depth-embedded states) x all diagram types x widths x both fringes x three state rankings x rub/dominance variants; each configuration is run with SimpleCache and with EmptyCache: sequential (half of the shards), parallel under random/PCT schedules with cache operations as yield points, parallel delay-injected. Verdict: the caching run is exact with value == optimum and a replayable solution (a common-mode error of both runs is not this property's). Non-trivial = pair in which the cache avoided work (a must_explore refusal, or threshold hits and fewer expansions than the uncached run); distinct by (instance, configuration, schedule signature). Exercise counters: threshold reads/hits, thresholds stored explored/unexplored, layer clears, expansions with/without cache.",
        "level_text": "Exploration with measured exercise of the cache (hits, refusals, avoided expansions are counted, a pair without any is not counted as non-trivial).",
        "level_note": "Trusted: oracle optimum. Needs the hooks for the scheduled part.",
        "assumptions": COMMON_ASSUMPTIONS,
    },
    "C14": {
        "cmd": "c14", "flavours": ["checked", "release"], "level": "exploration", "engine_name": "vh-seq", "design_ref": "DESIGN.md §4 C14",
        "budget": {"quick": 20, "thorough": 300},
        "technique": "runtime monitoring: warm-started real solver runs with oracle witness solutions (every feasible solution of tiny instances is enumerated), judged by the optimum and by replay; direct API check of the set_primal replacement rule",
        "rule": "for every random instance all feasible solutions are enumerated (<= 4000); primal values {optimum, largest feasible value below it, two random feasible values} with a witness solution each are given to set_primal before maximize(); sequential (3/4 of the shards) and parallel under random/PCT schedules (1..3 workers) x all configurations. Verdict: is_exact, value == optimum, returned solution replays to it. set_primal(p1,A); set_primal(p2,B) on both solver types must keep (max, its solution), the first one on ties. Non-trivial = primal below the optimum, or a run that still had to pop a sub-problem; distinct by (instance, configuration incl. the primal).",
        "level_text": "Exploration: the >/>= boundary of every pruning rule is hit because primal == optimum and primal == next feasible value below are always included.",
        "level_note": "Trusted: feasible-solution enumeration through the model's own transition functions, oracle optimum.",
        "assumptions": COMMON_ASSUMPTIONS,
    },
    "C15": {
        "cmd": "c15", "flavours": ["checked", "release"], "level": "exploration", "engine_name": "vh-sched", "design_ref": "DESIGN.md §4 C15",
        "budget": {"quick": 20, "thorough": 300},
        "technique": "runtime monitoring: differential runs Pooled vs plain Mdd vs oracle on long-arc models; non-termination witness monitor on the fringe; parallel part under the controlled scheduler and delay injection",
        "rule": "long-arc models only: depth-free table models with random irrelevance patterns (family T, each base state ignores a random third of the variables) set-packing with dynamic variable order (family P) and common-subsequence style models (family Q: impacted iff var == first position; in the plain diagrams the same states take real decisions on every layer); widths 1..3 and width heuristics, cache on/off, both fringes; sequential (half of the shards), parallel under random/PCT schedules, parallel delay-injected with 2..8 threads. Verdict: the solver with Pooled terminates (witness: a sub-problem re-enqueueing itself 200 times), is exact, reports the same value as the solver with the plain diagram == oracle optimum, and its (default-completed) solution replays. Non-trivial = pooled run in which is_impacted_by answered false at least once (a node really skipped a layer); distinct by (instance, configuration).",
        "level_text": "Exploration on the model families that exercise long arcs; termination decided by a witness, never by a clock.",
        "level_note": "Trusted: oracle, replay with neutral completion.",
        "assumptions": COMMON_ASSUMPTIONS,
    },
    "C19": {
        "cmd": "c19", "flavours": ["checked", "release"], "level": "fault_enumeration", "engine_name": "vh-seq", "design_ref": "DESIGN.md §4 C19",
        "budget": {"quick": 20, "thorough": 300},
        "technique": "fault enumeration at run time: the sequential solver is cut off at every poll index k = 1..K+1; consecutive results compared pairwise, exhaustive optimum at the end",
        "rule": "for every random instance/configuration (all diagram types, cache on/off, both fringes, three rankings, rub/dominance variants) the uninterrupted run gives K polls; runs cut at k = 1..K+1 (deterministic: run k is a prefix of run k+1) must satisfy lb(k+1) >= lb(k), ub(k+1) <= ub(k), and the last one (cutoff never fires) is exact with lb == ub == optimum. Non-trivial = instance whose ub sequence takes >= 3 distinct finite values and whose lb sequence takes >= 2; distinct by (instance, configuration).",
        "level_text": "Fault enumeration, exhaustive over the crash points of each sampled run.",
        "level_note": "Trusted: oracle optimum; determinism of the sequential solver (Fx hasher, no clock).",
        "assumptions": COMMON_ASSUMPTIONS,
    },

    "C20": {
        "cmd": "c20", "flavours": ["checked"], "level": "exploration", "engine_name": "vh-seq", "design_ref": "DESIGN.md §4 C20",
        "budget": {"quick": 20, "thorough": 300},
        "technique": "runtime monitoring: as_graphviz of every compiled diagram of the direct driver is parsed by a strict DOT reader and compared with a shadow diagram reconstructed from the callbacks (transition / transition_cost / merge / relax / fast_upper_bound) of the same compilation",
        "rule": "direct driver of C06 (families T/K/P/Q incl. long arcs and infeasible sub-problems, comp types exact/restricted/relaxed, widths 1..4, incumbents that prune everything, LEL/frontier/pooled, fresh and reused objects); after every completed compilation 8 of the 64 VizConfig flag combinations are rendered (always: everything shown; default-like; show_deleted+group_merged; 5 pseudo-random ones - all 64 are covered over a run). Each rendering must: not panic; be accepted by the strict reader of the DOT subset (digraph, node/edge statements, quoted strings with escapes, attribute lists without duplicates, subgraph clusters); declare each id once; labels list exactly the items the flags request; multiset of node state labels == shadow nodes (minus the nodes the shadow knows to be deleted when show_deleted = false: candidates of a squashed layer that received no fast_upper_bound call); multiset of (from state, to state, '(x<var> = <val>)\\ncost = <c>') == shadow arcs into drawn nodes; every edge end is declared or hidden by the configuration; terminal declared iff the shadow's last layer is non-empty with one edge per node of it; clusters only when requested and only listing declared ids. The reader self-tests on malformed inputs. Non-trivial = diagram with >= 1 merged or deleted node; distinct by (instance, diagram, root, width, incumbent, type, flag set).",
        "level_text": "Exploration: ~10^6 renderings per run each compared structurally (nodes, arcs with decision and cost, terminal) with an independent reconstruction of the same diagram.",
        "level_note": "Interrupted and never-compiled diagrams are outside 'any compiled diagram'. State types whose Debug output is plain (no double quote). Node values/bounds in labels are not compared (the property does not mention them).",
        "assumptions": COMMON_ASSUMPTIONS + ["graphviz itself is not installed: well-formedness = acceptance by the harness's strict reader of the DOT subset"],
    },

    "C16": {
        "engine": "exlab", "cmd": "exlab", "level": "exploration", "engine_name": "exlab", "design_ref": "DESIGN.md §4 C16, §8.6",
        "budget": {"quick": 60, "thorough": 900},
        "technique": "runtime monitoring of the shipped example binaries (release build of the working tree): generated well-formed instance files, printed objective compared with python brute-force oracles written from the problem statements; /proc based hang / deadlock verdicts",
        "rule": "the 12 example programs are built with `cargo build --release --examples` (feature off) from /repo's working tree and run on generated well-formed instance files of sizes 3-8 (bounded-exhaustive grids for knapsack / MISP / max-cut, random beyond; round-robin over the examples, instance i of example e drawn from Random('<seed>/<e>/<i>')) x widths {1,2,3,default} x threads {1,2,4} where the program has such options. Verdict per execution: abnormal exit / panic, 'Aborted: true' (tsptw: timeout status), printed objective != exhaustive enumeration of the underlying combinatorial problem (srflp: 1e-6 tolerance, constant term included; tsptw: makespan, f32x10000 formatting reproduced), deadlock (all tasks asleep, no CPU tick for 5 s), 120 CPU-seconds without result = violated; wall-clock timeout alone = inconclusive. On a wrong objective the instance is re-run at width 1000 (fact agrees_at_width_1000: does the defect need merging / truncation?). Generators respect the well-formedness conditions of DESIGN §4 C16 (positive weights, no duplicate clauses, metric TSPTW matrices, feasible PSP demands, ALP ordering conventions, acyclic SOP precedences ...). Non-trivial = instance whose optimum differs from a trivial baseline (greedy / first feasible), distinct by hash of the instance text.",
        "level_text": "Exploration: ~2*10^5 executions of the real binaries per quick run (2.8*10^6 thorough) against oracles that are independent from the DP models.",
        "level_note": "Trusted: the python oracles (each cross-checked on the instances shipped in /repo/resources and, for every disagreement found, by the program's own answer at width 1000) and the parsers of the printed output. Sizes are tiny; hardness comes from small widths.",
        "assumptions": ["oracles written from the problem statements, not from the DP models", "instance paths always have a parent directory (tsptw derives the instance name from it)", "what was not executed is not covered"],
    },
}

# Workload extensions made after the seeded-change rounds 3 (scale) and 4 (off the beaten path); appended to the rule texts.
ADDENDA = {
    "C01": "Scale: dedicated shards add medium (12-20 variables) and large (20-44 variables, widths up to 14) instances of T/K/P, incl. the deceptive table variant (24-36 layers, 16-64 base states, terminal reward behind one base state, rough bound = sum of per-layer maxima) whose searches keep hundreds of open sub-problems; long runs are bounded by a logical budget of 150 000 cutoff polls (inconclusive, never a violation). Rankings include a flat one (every comparison Equal); the knapsack reward is read off the (source, destination) state pair.",
    "C03": "Scale: the free-running shards (release flavour) spend ~1/2 of their cases on large instances (5/32 general, 12/32 deceptive tables with cache) with 2-16 threads, no injected delays there; measured runs of up to 116 consecutive cache refusals at the top of the fringe.",
    "C04": "Scale: free-running shards (release flavour) with 10/32 large and 4/32 deceptive instances, 1-16 threads (construction count and with_nb_threads independently), fringes of more than 64 sub-problems.",
    "C05": "A third (sequential) / half (parallel) of the cut-off runs call maximize() a second time on the interrupted solver (the cutoff keeps answering stop): the bounds, solution and exactness flag judged are those after the second call. Instances whose uninterrupted run needs more than 4 000 (quick) / 20 000 (thorough) polls are skipped (counted); one shard takes large instances.",
    "C06": "One main compilation in six runs under a counting cutoff that fires at a pseudo-random poll: either it is reported (Err) or the compilation claims to be complete and every clause applies. One case in three also compiles a leaf sub-problem (complete assignment, no variable left).",
    "C07": "Same extensions as C06 (counting cutoffs on the judged compilations, leaf sub-problems).",
    "C09": "Scale: stress shards with 10/32 large and 12/32 deceptive instances; on large deceptive instances the non-caching run is skipped three times out of four and says nothing when it exhausts the step budget: the caching solver is then judged against the oracle optimum alone.",
    "C10": "Half of the solver-level cases sit on the corner that exposed H7 (re-convergent tables, rule weak, width 1-2, random ranking); a small share of large / deceptive instances (run without checker skipped there, oracle only). The rule weak is confined to this campaign (finding H13).",
    "C11": "Every history is run in two allocation modes: each push allocates its own Arc, or pushes of equal states share one Arc (as clones of a sub-problem do).",
    "C12": "A third of the driver cases use long-arc instances, two thirds of those with a conservative is_impacted_by (states whose members are all irrelevant may still claim to be impacted, so that a merge can return a state that waits in the pool of the pooled diagram); a quarter of the table instances are in the big-M style (forbidden decisions stay in the domain and cost isize::MIN, values saturate).",
    "C19": "Instances whose uninterrupted run needs more than 4 000 (quick) / 20 000 (thorough) polls are skipped (counted); longer runs than 300 polls have ~90 sampled indices (windows of 3 consecutive indices + the first and last two).",
    "C20": "Medium / large instances: only the first 40 compilations of a case are rendered (each under 16 configurations); leaf sub-problems (single-node diagrams) are rendered too.",
}
for _k, _t in ADDENDA.items():
    CHECKS[_k]["rule"] = CHECKS[_k]["rule"].rstrip() + " " + _t

HOOK_COMMITS = ["da0cac8"]

ENGINES = [
    {"name": "vh-seq", "path": "/verif/harness", "serves_properties": [], "kind_free_text": "Rust harness `vh`: real sequential solver / diagram / data-structure executions under recording wrappers (MonDD, MonFringe, MonCache, CountingCutoff) judged by reference-model oracles"},
    {"name": "vh-sched", "path": "/verif/harness/src/sched.rs", "serves_properties": [], "kind_free_text": "controlled scheduler over the real threads of the parallel solver (hook events of feature xgillard_ddo_verif): replayable schedules, bounded pre-emption DFS, PCT, random; exact deadlock state"},
    {"name": "vh-stress", "path": "/verif/harness", "serves_properties": [], "kind_free_text": "free-running threads with injected delays, /proc quiescence watchdog, TSan and Miri builds of the same workloads"},
    {"name": "exlab", "path": "/verif/exlab", "serves_properties": [], "kind_free_text": "python3: instance generators + brute-force oracles for the 12 example programs, run against release binaries built from the working tree"},
]
for _e in ENGINES:
    _e["serves_properties"] = sorted(p for p, c in CHECKS.items() if c.get("engine_name") == _e["name"])

ALL_IDS = ["C%02d" % i for i in range(1, 21)]
NOT_APPLICABLE = [
    {"property_id": p, "reason": "check not built yet in this revision of /verif (design in DESIGN.md §4); it is not claimed until its campaign exists"}
    for p in ALL_IDS if p not in CHECKS
]
