//! Demonstration for MUTANT2 (property C18).
//!
//! Place this file at ddo/tests/demo2.rs and run
//!     cargo test --offline -p ddo --test demo2
//!
//! The dominance store must answer every query exactly as the Pareto front of
//! all the recorded states would: `dominated` iff some member of the front
//! dominates the queried state and, when the value takes part in the
//! comparison, the pruning threshold is the minimum over ALL the members of
//! the front that dominate the state.

use std::sync::{Arc, Barrier};

use ddo::*;

/// state = [key, a, b]: states are comparable iff they have the same key,
/// coordinates are a and b (greater is better), the value is a coordinate too.
struct Dom { with_value: bool }
impl Dominance for Dom {
    type State = [isize; 3];
    type Key = isize;
    fn get_key(&self, state: Arc<Self::State>) -> Option<isize> { Some(state[0]) }
    fn nb_dimensions(&self, _: &Self::State) -> usize { 2 }
    fn get_coordinate(&self, state: &Self::State, i: usize) -> isize { state[1 + i] }
    fn use_value(&self) -> bool { self.with_value }
}

// --- reference model: an explicit pareto front per (depth, key) -------------
#[derive(Default)]
struct Reference { with_value: bool, front: Vec<(usize, [isize; 3], isize)> }
impl Reference {
    fn coords(&self, s: &[isize; 3], v: isize) -> Vec<isize> {
        if self.with_value { vec![s[1], s[2], v] } else { vec![s[1], s[2]] }
    }
    fn query(&mut self, s: [isize; 3], depth: usize, v: isize) -> DominanceCheckResult {
        let me = self.coords(&s, v);
        let mut dominated = false;
        let mut threshold = isize::MAX;
        for (d, o, ov) in self.front.iter() {
            if *d != depth || o[0] != s[0] { continue; }
            let other = self.coords(o, *ov);
            let geq = other.iter().zip(me.iter()).all(|(x, y)| x >= y);
            if geq && other != me {
                dominated = true;
                if self.with_value {
                    let same_state = o[1] == s[1] && o[2] == s[2];
                    threshold = threshold.min(if same_state { *ov - 1 } else { *ov });
                }
            }
        }
        if dominated {
            DominanceCheckResult { dominated: true, threshold: Some(threshold) }
        } else {
            // everything that is (weakly) dominated by the new state leaves the front
            let with_value = self.with_value;
            self.front.retain(|(d, o, ov)| {
                if *d != depth || o[0] != s[0] { return true; }
                let other = if with_value { vec![o[1], o[2], *ov] } else { vec![o[1], o[2]] };
                !me.iter().zip(other.iter()).all(|(x, y)| x >= y)
            });
            self.front.push((depth, s, v));
            DominanceCheckResult { dominated: false, threshold: None }
        }
    }
}

fn alphabet() -> Vec<([isize; 3], usize, isize)> {
    let mut ops = vec![];
    for key in 0..2 {
        for a in 0..2 {
            for b in 0..2 {
                for value in 1..=3 {
                    for depth in 0..2 {
                        ops.push(([key, a, b], depth, value));
                    }
                }
            }
        }
    }
    ops
}

fn check_sequence(with_value: bool, seq: &[([isize; 3], usize, isize)]) {
    let checker = SimpleDominanceChecker::new(Dom { with_value }, 1);
    let mut reference = Reference { with_value, front: vec![] };
    for (i, (s, depth, v)) in seq.iter().copied().enumerate() {
        let got = checker.is_dominated_or_insert(Arc::new(s), depth, v);
        let exp = reference.query(s, depth, v);
        assert_eq!(exp, got, "with_value={with_value}: answer to op #{i} of {seq:?}");
    }
}

#[test]
fn dominance_store_matches_pareto_front_exhaustive_len3() {
    let ops = alphabet();
    for with_value in [false, true] {
        for a in ops.iter().copied() {
            for b in ops.iter().copied() {
                check_sequence(with_value, &[a, b]);
                for c in ops.iter().copied() {
                    check_sequence(with_value, &[a, b, c]);
                }
            }
        }
    }
}

#[test]
fn threshold_is_the_minimum_over_all_dominating_states() {
    let checker = SimpleDominanceChecker::new(Dom { with_value: true }, 0);
    let no = DominanceCheckResult { dominated: false, threshold: None };
    // two incomparable states
    assert_eq!(no, checker.is_dominated_or_insert(Arc::new([0, 5, 0]), 0, 9));
    assert_eq!(no, checker.is_dominated_or_insert(Arc::new([0, 0, 5]), 0, 4));
    // which both dominate this one
    assert_eq!(DominanceCheckResult { dominated: true, threshold: Some(4) },
               checker.is_dominated_or_insert(Arc::new([0, 0, 0]), 0, 1));
}

#[test]
fn concurrent_insertions_then_queries_match_pareto_front() {
    for nb_threads in [2_usize, 4, 8, 16] {
        for round in 0..20 {
            let checker = Arc::new(SimpleDominanceChecker::new(Dom { with_value: true }, 0));
            let barrier = Arc::new(Barrier::new(nb_threads));

            // thread i hammers a single key with a handful of states; the
            // states of all threads form an anti-chain of size nb_threads
            // (a grows, b and the value shrink) plus dominated copies of it
            let n = nb_threads as isize;
            let states_of = move |i: isize| -> Vec<([isize; 3], isize)> {
                vec![
                    ([0, i - 1, n - i - 1], 1),      // dominated by the next one
                    ([0, i, n - i], 10 + (n - i)),    // member of the anti chain
                    ([0, i, n - i], 10 + (n - i) - 1) // same state, lower value
                ]
            };

            std::thread::scope(|s| {
                for i in 0..nb_threads {
                    let checker = checker.clone();
                    let barrier = barrier.clone();
                    s.spawn(move || {
                        barrier.wait();
                        let mut mine = states_of(i as isize);
                        if (i + round) % 2 == 0 { mine.reverse(); }
                        for (state, value) in mine {
                            checker.is_dominated_or_insert(Arc::new(state), 0, value);
                        }
                    });
                }
            });

            // the pareto front of everything that was recorded is the anti chain
            let mut reference = Reference { with_value: true, front: vec![] };
            for i in 0..n {
                reference.front.push((0, [0, i, n - i], 10 + (n - i)));
            }
            // probes: dominated by several members of the front at once
            for a in -1..=n {
                for b in -1..=n {
                    for v in [0, 11, 10 + n] {
                        let exp = reference.query([0, a, b], 0, v);
                        let got = checker.is_dominated_or_insert(Arc::new([0, a, b]), 0, v);
                        assert_eq!(exp, got, "probe ({a},{b}) value {v}, {nb_threads} threads");
                    }
                }
            }
        }
    }
}
