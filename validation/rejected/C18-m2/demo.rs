//! Demo for C18 / mutant 2: SimpleDominanceChecker must answer every query
//! exactly as the Pareto front of all recorded states would -- that includes the
//! pruning threshold returned with a "dominated" answer, which is the minimum
//! over *all* the stored states that dominate the query, and hence must not
//! depend on the order in which the states were recorded (an order that is
//! arbitrary when several threads feed the checker).
//!
//! Place in ddo/tests/demo2.rs, run with
//!     cargo test --offline -p ddo --test demo2

use std::cmp::Ordering;
use std::sync::{Arc, Barrier};

use ddo::*;

type State = Vec<isize>;

#[derive(Clone, Copy)]
struct Dom { with_value: bool }
impl Dominance for Dom {
    type State = State;
    type Key = isize;
    fn get_key(&self, state: Arc<State>) -> Option<isize> { Some(state[0]) }
    fn nb_dimensions(&self, state: &State) -> usize { state.len() }
    fn get_coordinate(&self, state: &State, i: usize) -> isize { state[i] }
    fn use_value(&self) -> bool { self.with_value }
}

/// Sequential specification: remembers every recorded (state, value) of one layer
/// and answers from the Pareto front of that set.
struct Reference { dom: Dom, recorded: Vec<(State, isize)> }
impl Reference {
    fn new(dom: Dom) -> Self { Self { dom, recorded: vec![] } }

    fn less(&self, a: &(State, isize), b: &(State, isize)) -> Option<bool> {
        if a.0[0] != b.0[0] { return None; } // different keys: not comparable
        match self.dom.partial_cmp(&a.0, a.1, &b.0, b.1) {
            Some(DominanceCmpResult { ordering: Ordering::Less, only_val_diff }) => Some(only_val_diff),
            _ => None,
        }
    }
    fn front(&self) -> Vec<&(State, isize)> {
        self.recorded.iter()
            .filter(|x| !self.recorded.iter().any(|y| self.less(x, y).is_some()))
            .collect()
    }
    fn is_dominated_or_insert(&mut self, state: &State, value: isize) -> DominanceCheckResult {
        let q = (state.clone(), value);
        let mut dominated = false;
        let mut threshold = isize::MAX;
        for f in self.front() {
            if let Some(only_val_diff) = self.less(&q, f) {
                dominated = true;
                if self.dom.use_value() {
                    threshold = threshold.min(if only_val_diff { f.1.saturating_sub(1) } else { f.1 });
                }
            }
        }
        if dominated {
            DominanceCheckResult { dominated, threshold: Some(threshold) }
        } else {
            // with use_value() == false an "equal" state replaces the stored one
            self.recorded.retain(|r| !(r.0 == q.0 && !self.dom.use_value()));
            self.recorded.push(q);
            DominanceCheckResult { dominated, threshold: None }
        }
    }
}

#[test]
fn threshold_is_the_minimum_over_all_dominating_states() {
    for order in [[0usize, 1], [1, 0]] {
        let stored = [(vec![0, 5, 0], 10), (vec![0, 0, 5], 4)];
        let dom = Dom { with_value: true };
        let checker = SimpleDominanceChecker::new(dom, 0);
        for i in order {
            let (s, v) = stored[i].clone();
            assert!(!checker.is_dominated_or_insert(Arc::new(s), 0, v).dominated);
        }
        // dominated by both stored states (which are mutually incomparable)
        assert_eq!(DominanceCheckResult { dominated: true, threshold: Some(4) },
            checker.is_dominated_or_insert(Arc::new(vec![0, 0, 0]), 0, 1),
            "insertion order {order:?}");
    }
}

#[test]
fn exhaustive_sequences_match_reference() {
    // alphabet: 1 key, coordinates in {0,1}^2, values in {0,1,2}: 12 letters; length <= 4
    let mut letters = vec![];
    for a in 0..2 { for b in 0..2 { for v in 0..3 { letters.push((vec![0, a, b], v)); } } }
    for with_value in [false, true] {
        let dom = Dom { with_value };
        let n = letters.len();
        for len in 1..=4u32 {
            for code in 0..n.pow(len) {
                let checker = SimpleDominanceChecker::new(dom, 1);
                let mut reference = Reference::new(dom);
                let mut c = code;
                let mut trace = vec![];
                for _ in 0..len {
                    let (s, v) = &letters[c % n];
                    c /= n;
                    trace.push((s.clone(), *v));
                    let expected = reference.is_dominated_or_insert(s, *v);
                    let actual = checker.is_dominated_or_insert(Arc::new(s.clone()), 1, *v);
                    assert_eq!(expected, actual, "use_value={with_value} sequence={trace:?}");
                }
                // the other layer was never touched
                assert!(!checker.is_dominated_or_insert(Arc::new(vec![0, -9, -9]), 0, -9).dominated);
            }
        }
    }
}

#[test]
fn concurrent_inserts_then_queries_match_reference() {
    let dom = Dom { with_value: true };
    for nb_threads in [2usize, 4, 8, 16] {
        for round in 0..20 {
            let checker = Arc::new(SimpleDominanceChecker::new(dom, 0));
            let barrier = Arc::new(Barrier::new(nb_threads));
            // an anti-chain: thread t records [0, t, -t] with value 100 + ((t * 7 + round) % nb_threads)
            let item = move |t: usize| (vec![0, t as isize, -(t as isize)], 100 + ((t * 7 + round) % nb_threads) as isize);
            let handles = (0..nb_threads).map(|t| {
                let checker = Arc::clone(&checker);
                let barrier = Arc::clone(&barrier);
                std::thread::spawn(move || {
                    let (s, v) = item(t);
                    barrier.wait();
                    let res = checker.is_dominated_or_insert(Arc::new(s), 0, v);
                    assert_eq!(DominanceCheckResult { dominated: false, threshold: None }, res);
                })
            }).collect::<Vec<_>>();
            for h in handles { h.join().unwrap(); }

            // any sequential order of the above yields the same set, hence the same front
            let mut reference = Reference::new(dom);
            for t in 0..nb_threads {
                let (s, v) = item(t);
                reference.is_dominated_or_insert(&s, v);
            }
            let n = nb_threads as isize;
            let probes = [
                (vec![0, -1, -n], 0),          // below every recorded state
                (vec![0, 0, -n], 150),         // higher value: dominated by nobody
                (vec![0, 1, -n], 50),          // below all but thread 0's
                (vec![0, n / 2, -n], 101),
                (vec![0, n, 0], 0),            // incomparable with all / dominating
            ];
            for (s, v) in probes {
                let expected = reference.is_dominated_or_insert(&s, v);
                let actual = checker.is_dominated_or_insert(Arc::new(s.clone()), 0, v);
                assert_eq!(expected, actual, "threads={nb_threads} round={round} probe={s:?}@{v}");
            }
        }
    }
}
