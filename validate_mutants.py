#!/usr/bin/env python3
"""Validation of the monitors themselves (DESIGN §6): applies each seeded change to a scratch worktree of /repo (never to
/repo itself), runs the responsible checks against it through VERIF_REPO_OVERRIDE and records whether / how fast they fire.

  ./validate_mutants.py [--only name,name] [--tier quick]      results -> validation/results.json
Mutants: validation/revfix/<name>.diff  (reverse of a fix: commit of /repo; the file name starts with the property id)
         seeded/<id>/patch.diff + meta.json {"property": "Cxx", "checks": ["Cxx", ...]}  (changes written by independent sub-agents)
"""
import glob, json, os, shutil, subprocess, sys, time

VERIF = os.path.dirname(os.path.abspath(__file__))


def sh(cmd, **kw):
    return subprocess.run(cmd, shell=True, text=True, stdout=subprocess.PIPE, stderr=subprocess.STDOUT, **kw)


def main():
    only = None
    tier = "quick"
    a = sys.argv[1:]
    while a:
        if a[0] == "--only":
            only = set(a[1].split(",")); a = a[2:]
        elif a[0] == "--tier":
            tier = a[1]; a = a[2:]
        else:
            a = a[1:]
    mutants = []
    for f in sorted(glob.glob(os.path.join(VERIF, "validation", "revfix", "*.diff"))):
        name = os.path.basename(f)[:-5]
        mutants.append({"name": "revfix-" + name, "patch": f, "checks": [name.split("_")[0]], "kind": "reverse of a fix: commit"})
    for d in sorted(glob.glob(os.path.join(VERIF, "seeded", "*"))):
        meta = json.load(open(os.path.join(d, "meta.json")))
        mutants.append({"name": os.path.basename(d), "patch": os.path.join(d, "patch.diff"), "checks": meta.get("checks", [meta["property"]]), "kind": "seeded by sub-agent"})
    respath = os.path.join(VERIF, "validation", "results.json")
    results = json.load(open(respath)) if os.path.exists(respath) else {}
    for m in mutants:
        if only and m["name"] not in only:
            continue
        wt = f"/tmp/vm_{os.getpid()}_{m['name']}"[:60]
        sh(f"git -C /repo worktree remove --force {wt}")
        r = sh(f"git -C /repo worktree add -q --detach {wt} HEAD")
        r = sh(f"git -C {wt} apply {m['patch']}")
        entry = results.get(m["name"], {"kind": m["kind"], "checks": {}})
        entry["applies"] = r.returncode == 0
        entry.setdefault("checks", {})
        if r.returncode != 0:
            entry["error"] = r.stdout[-500:]
        else:
            for c in m["checks"]:
                t0 = time.time()
                env = dict(os.environ, VERIF_REPO_OVERRIDE=wt, VERIF_SEED=os.environ.get("VERIF_SEED", "1"))
                rr = subprocess.run([os.path.join(VERIF, "check"), c, "--tier", tier], cwd=VERIF, env=env, text=True, stdout=subprocess.PIPE, stderr=subprocess.PIPE)
                viol = [l for l in rr.stdout.splitlines() if l.startswith("VIOLATION")]
                clauses = sorted(set(l.split(":")[0].strip()[3:] for l in rr.stderr.splitlines() if l.startswith("  -> ")))
                ckey = c if tier == "quick" else f"{c}@{tier}"
                entry["checks"][ckey] = {"exit": rr.returncode, "violation_lines": len(viol), "clauses": clauses[:8], "wall_s": round(time.time() - t0, 1),
                                      "detected": rr.returncode == 1 and len(viol) > 0, "summary": rr.stdout.splitlines()[-1] if rr.stdout else ""}
                print(m["name"], ckey, entry["checks"][ckey]["detected"], entry["checks"][ckey]["clauses"], entry["checks"][ckey]["wall_s"], flush=True)
        results[m["name"]] = entry
        sh(f"git -C /repo worktree remove --force {wt}")
        # remove the scratch build of the harness for that worktree
        import hashlib
        shutil.rmtree(os.path.join(VERIF, "work", "override_" + hashlib.sha1(wt.encode()).hexdigest()[:10]), ignore_errors=True)
        json.dump(results, open(respath, "w"), indent=1)
    return 0


if __name__ == "__main__":
    sys.exit(main())
