//! Shard bookkeeping: what a campaign evaluated, what was non-trivial, samples,
//! violations, inconclusive executions; written as a partial result that the
//! dispatcher (/verif/check) merges.
use std::collections::{BTreeMap, HashSet};
use std::io::Write;
use std::path::PathBuf;
use std::sync::Mutex;
use std::time::{Duration, Instant};

use crate::models::{DomKind, RankKind, RubKind, Variant};
use crate::monitor::Violation;
use crate::runner::*;
use crate::util::{Rng, J};

#[derive(Clone, Copy, Debug, PartialEq, Eq)]
pub enum Tier { Quick, Thorough }

#[derive(Clone, Debug)]
pub struct Shard {
    pub check: String,
    pub idx: u64,
    pub n: u64,
    pub seed: u64,
    pub tier: Tier,
    pub out: PathBuf,
    /// first case index to run (used to resume after a process exit forced by a deadlock)
    pub resume: u64,
    /// time budget of the campaign loop
    pub budget: Duration,
    pub replay: Option<PathBuf>,
    pub start: Instant,
    /// replay of one case of a campaign by its index
    pub only_case: Option<u64>,
}
impl Shard {
    pub fn time_left(&self) -> bool { self.start.elapsed() < self.budget }
    pub fn quick(&self) -> bool { self.tier == Tier::Quick }
}

#[derive(Default)]
pub struct Acc {
    pub evaluations: u64,
    pub nontrivial: HashSet<u64>,
    /// distinct non-trivial cases counted directly (exhaustive enumerations, where every case is distinct by construction)
    pub nt_extra: u64,
    pub counters: BTreeMap<String, u64>,
    pub samples: Vec<J>,
    pub violations: Vec<J>,
    pub inconclusive: Vec<J>,
    pub harness_errors: Vec<J>,
    pub next_case: u64,
    pub done: bool,
    pub out: Option<PathBuf>,
    pub max_samples: usize,
    pub current_case: Option<J>,
    pub exhaustive: Option<bool>,
    pub notes: Vec<String>,
}
pub static ACC: Mutex<Option<Acc>> = Mutex::new(None);

/// progress marker watched by the hang watchdog (main.rs): ticks whenever a new case / schedule / history starts
pub static CASE_SEQ: std::sync::atomic::AtomicU64 = std::sync::atomic::AtomicU64::new(0);
pub static CUR_INDEX: std::sync::atomic::AtomicU64 = std::sync::atomic::AtomicU64::new(u64::MAX);
pub fn tick() { CASE_SEQ.fetch_add(1, std::sync::atomic::Ordering::Relaxed); }

pub fn acc_init(out: PathBuf) {
    *ACC.lock().unwrap() = Some(Acc { out: Some(out), max_samples: 6, ..Default::default() });
}
pub fn with_acc<R>(f: impl FnOnce(&mut Acc) -> R) -> R {
    let mut g = ACC.lock().unwrap_or_else(|e| e.into_inner());
    f(g.as_mut().expect("acc not initialised"))
}
impl Acc {
    pub fn bump(&mut self, k: &str, n: u64) { if n > 0 { *self.counters.entry(k.to_string()).or_insert(0) += n; } }
    pub fn sample(&mut self, j: J) { if self.samples.len() < self.max_samples { self.samples.push(j); } }
    pub fn violation(&mut self, prop: &str, clause: &str, detail: String, facts: J, case: J) {
        // every violation is counted; at most 4 per signature are listed (so that a rare kind is never hidden by a frequent one)
        let sig = format!("viol:{prop}:{clause}:{}:{}:{}:{}", facts.gets("dd").or(case.get("cfg").and_then(|c| c.gets("dd"))).unwrap_or("-"), case.gets("family").unwrap_or("-"),
            case.getb("long_arcs").map_or("-", |b| if b { "long_arcs" } else { "no_long_arcs" }), facts.getb("node_is_root").map_or("-", |b| if b { "root" } else { "notroot" }));
        let n = { let c = self.counters.entry(sig).or_insert(0); *c += 1; *c };
        if n <= 4 && self.violations.len() < 400 {
            self.violations.push(J::obj().set("property", J::s(prop)).set("clause", J::s(clause)).set("detail", J::s(detail)).set("facts", facts).set("case", case));
        } else {
            self.bump("violations_not_listed", 1);
        }
    }
    pub fn add_violation(&mut self, v: &Violation, case: &J) {
        self.violation(v.prop, &v.clause, v.detail.clone(), v.facts.clone(), case.clone());
    }
    pub fn inconclusive(&mut self, why: &str, case: J) {
        self.bump("inconclusive", 1);
        if self.inconclusive.len() < 20 { self.inconclusive.push(J::obj().set("why", J::s(why)).set("case", case)); }
    }
    pub fn harness_error(&mut self, why: String, case: J) {
        if self.harness_errors.len() < 20 { self.harness_errors.push(J::obj().set("why", J::s(why)).set("case", case)); }
    }
    /// merges what the online monitors collected during one run
    pub fn absorb(&mut self, out: &Outcome, prop: &'static str, case: &J) {
        for (k, v) in &out.counters { self.bump(k, *v); }
        if let Some(s) = out.nontrivial.get(prop) { self.nontrivial.extend(s.iter().copied()); }
        for v in &out.violations {
            if v.prop == prop { self.add_violation(v, case); } else { self.bump("other_property_violations_seen", 1); }
        }
        if let Some(p) = out.harness_panic() {
            self.harness_error(format!("panic outside the library: {} at {}:{}", p.msg, p.file, p.line), case.clone());
        }
    }
    pub fn to_json(&self) -> J {
        J::obj()
            .set("evaluations", J::i(self.evaluations))
            .set("distinct_nontrivial_local", J::i(self.nontrivial.len()))
            .set("nt_extra", J::i(self.nt_extra))
            .set("nt_dropped_by_cap", J::i(self.nontrivial.len().saturating_sub(2_000_000)))
            .set("counters", J::Obj(self.counters.iter().map(|(k, v)| (k.clone(), J::i(*v))).collect()))
            .set("samples", J::Arr(self.samples.clone()))
            .set("violations", J::Arr(self.violations.clone()))
            .set("inconclusive", J::Arr(self.inconclusive.clone()))
            .set("harness_errors", J::Arr(self.harness_errors.clone()))
            .set("next_case", J::i(self.next_case))
            .set("done", J::Bool(self.done))
            .set("exhaustive", self.exhaustive.map_or(J::Null, J::Bool))
            .set("notes", J::Arr(self.notes.iter().map(|n| J::s(n.clone())).collect()))
    }
    pub fn flush(&self) {
        if let Some(out) = &self.out {
            let tmp = out.with_extension("tmp");
            if let Ok(mut f) = std::fs::File::create(&tmp) {
                let _ = f.write_all(self.to_json().render().as_bytes());
                let _ = f.sync_all();
                let _ = std::fs::rename(&tmp, out);
            }
            let nt = out.with_extension("nt");
            if let Ok(mut f) = std::fs::File::create(&nt) {
                // at most 2M hashes per shard are handed to the dispatcher (distinct_nontrivial is then a lower bound)
                const CAP: usize = 2_000_000;
                let mut buf = Vec::with_capacity(self.nontrivial.len().min(CAP) * 8);
                for h in self.nontrivial.iter().take(CAP) { buf.extend_from_slice(&h.to_le_bytes()); }
                let _ = f.write_all(&buf);
            }
        }
    }
}

// ---------------------------------------------------------------------------
// case specification shared by the solver level campaigns
// ---------------------------------------------------------------------------
#[derive(Clone, Debug)]
pub struct CaseSpec {
    pub family: char,
    pub gen_seed: u64,
    pub size: u32,
    pub variant: Variant,
    pub cfg: Cfg,
}
fn kind_json<T: std::fmt::Debug>(t: &T) -> J { J::s(format!("{t:?}")) }
fn parse_rub(s: &str) -> RubKind {
    if s == "None" { RubKind::None } else if s == "Exact" { RubKind::Exact } else {
        RubKind::Slack(s.trim_start_matches("Slack(").trim_end_matches(')').parse().unwrap_or(1))
    }
}
fn parse_rank(s: &str) -> RankKind {
    if s == "Natural" { RankKind::Natural } else if s == "Reverse" { RankKind::Reverse } else if s == "Flat" { RankKind::Flat } else {
        RankKind::Random(s.trim_start_matches("Random(").trim_end_matches(')').parse().unwrap_or(1))
    }
}
fn parse_dom(s: &str) -> DomKind { match s { "Exact" => DomKind::Exact, "Weak" => DomKind::Weak, _ => DomKind::None } }
impl CaseSpec {
    pub fn json(&self) -> J {
        J::obj()
            .set("family", J::s(self.family.to_string()))
            .set("gen_seed", J::Int(self.gen_seed as i64))
            .set("size", J::i(self.size))
            .set("rub", kind_json(&self.variant.rub)).set("rank", kind_json(&self.variant.rank)).set("dom", kind_json(&self.variant.dom))
            .set("cfg", self.cfg.json())
    }
    pub fn from_json(j: &J) -> CaseSpec {
        CaseSpec {
            family: j.gets("family").and_then(|s| s.chars().next()).unwrap_or('T'),
            gen_seed: j.geti("gen_seed").unwrap_or(0) as u64,
            size: j.geti("size").unwrap_or(1) as u32,
            variant: Variant { rub: parse_rub(j.gets("rub").unwrap_or("None")), rank: parse_rank(j.gets("rank").unwrap_or("Natural")), dom: parse_dom(j.gets("dom").unwrap_or("None")) },
            cfg: j.get("cfg").map(Cfg::from_json).unwrap_or_else(|| Cfg::seq(DdKind::Lel, false, FringeKind::Simple, WidthKind::Fixed(1))),
        }
    }
}

impl CaseSpec {
    /// medium / large instance (12+ variables)
    pub fn is_big(&self) -> bool {
        match self.family { 'T' => (self.size & 0xF) >= 3, 'K' | 'P' => self.size >= 4 && self.size != 3, 'Q' => self.size >= 3, _ => false }
    }
}

/// which corners the generator puts its mass on
#[derive(Clone, Copy, Debug, Default)]
pub struct Profile {
    /// only depth-free / long arc families (C15, C11 solver level)
    pub long_arcs_only: bool,
    pub depth_free_bias: bool,
    pub reconvergent: bool,
    pub with_dominance: bool,
    pub small: bool,
    pub no_pooled: bool,
    pub only_all_impacted: bool,
    pub max_width: usize,
    /// share (in 1/16) of medium sized instances (12-20 variables), with widths up to 8
    pub medium_share: u64,
    /// share (in 1/32) of large instances (20-36 variables): long searches, fringes of hundreds of nodes
    pub large_share: u64,
    /// share (in 1/32) of large *deceptive* table instances (see `F_DECEPTIVE`) solved with a cache: searches of hundreds of
    /// sub-problems whose fringe holds long runs of nodes invalidated by the cache before they are popped
    pub deceptive_share: u64,
    /// family T with the 'weak' dominance rule (domination possible between equally good states, not preserved by
    /// transitions): exposed finding H7 (fixed by 0354425) and exposes finding H13 (open); only the C10 campaign uses it - in
    /// the other campaigns a wrong optimum under that rule would only repeat C10's finding
    pub weak_t_dominance: bool,
}

pub fn random_variant(rng: &mut Rng, with_dom: bool) -> Variant {
    let rub = match rng.below(4) { 0 => RubKind::None, 1 | 2 => RubKind::Exact, _ => RubKind::Slack(rng.next() % 1000) };
    let rank = match rng.below(8) { 0..=3 => RankKind::Natural, 4 | 5 => RankKind::Reverse, 6 => RankKind::Flat, _ => RankKind::Random(rng.next() % 1000) };
    let dom = if with_dom { match rng.below(3) { 0 => DomKind::None, 1 => DomKind::Exact, _ => DomKind::Weak } } else { DomKind::None };
    Variant { rub, rank, dom }
}

pub fn random_spec(rng: &mut Rng, p: &Profile) -> CaseSpec {
    use crate::models::{kmodel::*, pmodel::*, qmodel::*, tmodel::*};
    let fam = if p.long_arcs_only { match rng.below(5) { 0 | 1 => 'T', 2 | 3 => 'P', _ => 'Q' } }
        else if p.only_all_impacted { if rng.chance(2, 3) { 'T' } else { 'K' } }
        else { match rng.below(11) { 0..=4 => 'T', 5 | 6 => 'K', 7..=9 => 'P', _ => 'Q' } };
    let deceptive = p.deceptive_share > 0 && rng.below(32) < p.deceptive_share;
    let fam = if deceptive { 'T' } else { fam };
    let large = deceptive || (p.large_share > 0 && rng.below(32) < p.large_share && !p.long_arcs_only);
    let medium = !large && p.medium_share > 0 && rng.below(16) < p.medium_share;
    let fam = if large && fam == 'Q' { 'K' } else { fam };
    let size = match fam {
        'T' => {
            let mut s = if large { SZ_LARGE } else if medium { SZ_MEDIUM } else if p.small && rng.chance(1, 2) { SZ_SMALL } else { SZ_TINY };
            if p.long_arcs_only { s |= F_IRRELEVANCE; }
            else if !p.only_all_impacted && rng.chance(1, 5) { s |= F_IRRELEVANCE; }
            if s & F_IRRELEVANCE != 0 && rng.chance(2, 3) { s |= F_CONSERVATIVE; }
            else if rng.chance(if p.depth_free_bias { 3 } else { 1 }, 4) { s |= F_DEPTH_FREE; }
            if rng.chance(1, 3) { s |= F_PERMUTED; }
            if p.reconvergent || rng.chance(1, 4) { s |= F_RECONVERGENT; }
            if rng.chance(1, 4) { s |= F_NO_BONUS; }
            if rng.chance(1, 4) { s |= F_NO_DEAD_END; }
            if rng.chance(1, 5) { s |= F_ABSORBING; }
            // large: many base states (no 're-convergent' shrinking); half of them without bonus: the states of a layer are the
            // few base states, so that a simple fringe accumulates long runs of stale duplicates
            if large { s &= !F_RECONVERGENT; if rng.chance(1, 2) { s |= F_NO_BONUS; } if deceptive { s = (s & !(F_DEPTH_FREE | F_IRRELEVANCE | F_ABSORBING)) | F_DECEPTIVE; } }
            s
        }
        'Q' => if medium { QSZ_MEDIUM } else if p.small && rng.chance(1, 2) { QSZ_SMALL } else { QSZ_TINY },
        'K' => if large { if rng.chance(1, 2) { KSZ_LARGE_FEW } else { KSZ_LARGE } } else if medium { KSZ_MEDIUM } else if p.reconvergent { KSZ_FEWWEIGHTS } else if p.small && rng.chance(1, 2) { KSZ_SMALL } else { *rng.pick(&[KSZ_TINY, KSZ_TINY, KSZ_FEWWEIGHTS]) },
        _ => if large { PSZ_LARGE } else if medium { PSZ_MEDIUM } else if p.reconvergent { PSZ_SPARSE } else if p.small && rng.chance(1, 2) { PSZ_SMALL } else { *rng.pick(&[PSZ_TINY, PSZ_TINY, PSZ_SPARSE]) },
    };
    let mut variant = random_variant(rng, p.with_dominance);
    if fam == 'T' && variant.dom == DomKind::Weak && !p.weak_t_dominance { variant.dom = DomKind::Exact; }
    let dd = if p.no_pooled { *rng.pick(&[DdKind::Lel, DdKind::Fc]) } else { *rng.pick(&DdKind::ALL) };
    let maxw = if large { 12 } else if medium { 8 } else if p.max_width == 0 { 4 } else { p.max_width };
    let width = match rng.below(10) {
        0 => WidthKind::NbUnassigned,
        1 => WidthKind::Times(rng.usize(3), 1 + rng.usize(2)),
        2 => WidthKind::DivBy(1 + rng.usize(3), 1 + rng.usize(4)),
        _ => WidthKind::Fixed(1 + rng.usize(maxw)),
    };
    // large instances: keep the search tractable (an admissible bound, widths >= 3)
    let (variant, width) = if large {
        let mut v = variant;
        // a loose admissible bound: long searches (hundreds / thousands of sub-problems, fringes of hundreds of nodes)
        v.rub = RubKind::Slack((rng.next() % 1000) | 1);
        (v, WidthKind::Fixed(if rng.chance(1, 2) { 2 + rng.usize(5) } else { 6 + rng.usize(9) }))
    } else { (variant, width) };
    let cfg = Cfg::seq(dd, rng.chance(1, 2) || deceptive, if rng.chance(1, 2) { FringeKind::Simple } else { FringeKind::NoDup }, width);
    CaseSpec { family: fam, gen_seed: rng.next() >> 16, size, variant, cfg }
}

/// dispatches a generic function on the family of the spec
#[macro_export]
macro_rules! with_family {
    ($fam:expr, $f:ident, $($args:expr),*) => {
        match $fam {
            'T' => $f::<$crate::models::tmodel::TInst>($($args),*),
            'K' => $f::<$crate::models::kmodel::KInst>($($args),*),
            'Q' => $f::<$crate::models::qmodel::QInst>($($args),*),
            _ => $f::<$crate::models::pmodel::PInst>($($args),*),
        }
    };
}
