//! `vh` -- harness of the runtime monitoring framework (see /verif/DESIGN.md).
//! usage: vh <check> --tier quick|thorough --seed N --shard i/n --out FILE [--resume K] [--budget SECS] [--replay FILE]
#![allow(dead_code)]
mod util;
mod models;
mod monitor;
mod sched;
mod runner;
mod campaign;
mod checks;

use std::path::PathBuf;
use std::time::{Duration, Instant};

use campaign::{Shard, Tier};

fn main() {
    let args: Vec<String> = std::env::args().collect();
    if args.len() >= 2 && args[1] == "--race-selftest" {
        // deliberately racy program: proves that the ThreadSanitizer build really reports data races
        static mut RACY: u64 = 0;
        std::thread::scope(|s| {
            for _ in 0..2 { s.spawn(|| for _ in 0..10_000 { unsafe { let p = std::ptr::addr_of_mut!(RACY); p.write_volatile(p.read_volatile() + 1); } }); }
        });
        println!("selftest done");
        return;
    }
    if args.len() < 2 {
        eprintln!("usage: vh <check> --tier quick|thorough --seed N --shard i/n --out FILE [--resume K] [--budget SECS] [--replay FILE]");
        std::process::exit(2);
    }
    let mut shard = Shard {
        check: args[1].to_lowercase(), idx: 0, n: 1, seed: 1, tier: Tier::Quick, out: PathBuf::from("/dev/null"), resume: 0,
        budget: Duration::from_secs(20), replay: None, start: Instant::now(), only_case: None,
    };
    let mut i = 2;
    while i < args.len() {
        let val = args.get(i + 1).cloned().unwrap_or_default();
        match args[i].as_str() {
            "--tier" => shard.tier = if val == "thorough" { Tier::Thorough } else { Tier::Quick },
            "--seed" => shard.seed = val.parse().unwrap_or(1),
            "--shard" => {
                let mut it = val.split('/');
                shard.idx = it.next().and_then(|x| x.parse().ok()).unwrap_or(0);
                shard.n = it.next().and_then(|x| x.parse().ok()).unwrap_or(1);
            }
            "--out" => shard.out = PathBuf::from(val),
            "--resume" => shard.resume = val.parse().unwrap_or(0),
            "--budget" => shard.budget = Duration::from_secs_f64(val.parse().unwrap_or(20.0)),
            "--replay" => shard.replay = Some(PathBuf::from(val)),
            // small workloads for the Miri add-ons / only the concurrent part for the TSan add-ons
            "--small" => { std::env::set_var("VH_SMALL", "1"); i += 1; continue; }
            "--concurrent-only" => { std::env::set_var("VH_C18_CONCURRENT_ONLY", "1"); i += 1; continue; }
            "--stress-only" => { std::env::set_var("VH_STRESS_ONLY", "1"); i += 1; continue; }
            _ => { eprintln!("unknown argument {}", args[i]); std::process::exit(2); }
        }
        i += 2;
    }
    runner::install_panic_hook();
    campaign::acc_init(shard.out.clone());
    // when the scheduler / watchdog detects a deadlock the process must exit: flush first
    runner::set_deadlock_handler(Some(std::sync::Arc::new(|msg: &str, rep: Option<&sched::SchedReport>| {
        checks::on_deadlock(msg, rep);
        campaign::with_acc(|a| a.flush());
        std::process::exit(3);
    })));
    // hang watchdog: a single case normally costs micro- to milliseconds of CPU; a case that has burnt 60 CPU-seconds
    // (>= 10^4 x the normal cost; CPU time, never wall time) without returning is a library call that does not
    // return: the verdict is written to a side file (the accumulator may be locked by the hung thread) and the
    // process exits with 3 so that the dispatcher resumes the shard after the failing case
    if !cfg!(miri) {
        let sh = shard.clone();
        std::thread::spawn(move || hang_watchdog(sh));
    }
    let code = checks::run(&shard);
    campaign::with_acc(|a| { a.done = true; a.flush(); });
    std::process::exit(code);
}

fn cpu_ticks() -> u64 {
    let stat = std::fs::read_to_string("/proc/self/stat").unwrap_or_default();
    let rest = stat.rfind(')').map(|i| &stat[i + 2..]).unwrap_or("");
    let f: Vec<&str> = rest.split(' ').collect();
    f.get(11).and_then(|x| x.parse::<u64>().ok()).unwrap_or(0) + f.get(12).and_then(|x| x.parse::<u64>().ok()).unwrap_or(0)
}
fn hang_watchdog(shard: Shard) {
    use std::sync::atomic::Ordering::Relaxed;
    let limit_ticks: u64 = std::env::var("VH_HANG_CPU_S").ok().and_then(|x| x.parse().ok()).unwrap_or(60) * 100;
    let mut last_seq = campaign::CASE_SEQ.load(Relaxed);
    let mut cpu0 = cpu_ticks();
    loop {
        std::thread::sleep(Duration::from_millis(500));
        let seq = campaign::CASE_SEQ.load(Relaxed);
        let cpu = cpu_ticks();
        if seq != last_seq { last_seq = seq; cpu0 = cpu; continue; }
        if cpu.saturating_sub(cpu0) >= limit_ticks {
            let idx = campaign::CUR_INDEX.load(Relaxed);
            let prop = checks::common::current_prop();
            let case = match campaign::ACC.try_lock() { Ok(g) => g.as_ref().and_then(|a| a.current_case.clone()), Err(_) => None };
            let mut cj = util::J::obj().set("kind", util::J::s("case_index")).set("check", util::J::s(shard.check.clone())).set("seed", util::J::Int(shard.seed as i64))
                .set("case_index", if idx == u64::MAX { util::J::Null } else { util::J::Int(idx as i64) })
                .set("shard_idx", util::J::Int(shard.idx as i64)).set("shard_n", util::J::Int(shard.n as i64)).set("tier", util::J::s(if shard.tier == campaign::Tier::Thorough { "thorough" } else { "quick" }));
            if let Some(c) = case { cj = cj.set("case_in_progress", c); }
            let v = util::J::obj().set("property", util::J::s(prop)).set("clause", util::J::s("no_return_within_cpu_budget"))
                .set("detail", util::J::s(format!("a library call did not return: the case in progress (index {idx} of check {}) has burnt {} CPU-seconds (normal cost: milliseconds)", shard.check, (cpu - cpu0) / 100)))
                .set("facts", util::J::obj().set("cpu_s", util::J::Int(((cpu - cpu0) / 100) as i64))).set("case", cj)
                .set("next_case", util::J::Int(if idx == u64::MAX { 0 } else { idx as i64 + 1 }));
            let _ = std::fs::write(shard.out.with_extension("hang"), v.render());
            if let Ok(g) = campaign::ACC.try_lock() { if let Some(a) = g.as_ref() { a.flush(); } }
            std::process::exit(3);
        }
    }
}
