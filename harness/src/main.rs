//! `vh` -- harness of the runtime monitoring framework (see /verif/DESIGN.md).
//! usage: vh <check> --tier quick|thorough --seed N --shard i/n --out FILE [--resume K] [--budget SECS] [--replay FILE]
#![allow(dead_code)]
mod util;
mod models;
mod monitor;
mod sched;
mod runner;
mod campaign;
mod checks;

use std::path::PathBuf;
use std::time::{Duration, Instant};

use campaign::{Shard, Tier};

fn main() {
    let args: Vec<String> = std::env::args().collect();
    if args.len() >= 2 && args[1] == "--race-selftest" {
        // deliberately racy program: proves that the ThreadSanitizer build really reports data races
        static mut RACY: u64 = 0;
        std::thread::scope(|s| {
            for _ in 0..2 { s.spawn(|| for _ in 0..10_000 { unsafe { let p = std::ptr::addr_of_mut!(RACY); p.write_volatile(p.read_volatile() + 1); } }); }
        });
        println!("selftest done");
        return;
    }
    if args.len() < 2 {
        eprintln!("usage: vh <check> --tier quick|thorough --seed N --shard i/n --out FILE [--resume K] [--budget SECS] [--replay FILE]");
        std::process::exit(2);
    }
    let mut shard = Shard {
        check: args[1].to_lowercase(), idx: 0, n: 1, seed: 1, tier: Tier::Quick, out: PathBuf::from("/dev/null"), resume: 0,
        budget: Duration::from_secs(20), replay: None, start: Instant::now(),
    };
    let mut i = 2;
    while i < args.len() {
        let val = args.get(i + 1).cloned().unwrap_or_default();
        match args[i].as_str() {
            "--tier" => shard.tier = if val == "thorough" { Tier::Thorough } else { Tier::Quick },
            "--seed" => shard.seed = val.parse().unwrap_or(1),
            "--shard" => {
                let mut it = val.split('/');
                shard.idx = it.next().and_then(|x| x.parse().ok()).unwrap_or(0);
                shard.n = it.next().and_then(|x| x.parse().ok()).unwrap_or(1);
            }
            "--out" => shard.out = PathBuf::from(val),
            "--resume" => shard.resume = val.parse().unwrap_or(0),
            "--budget" => shard.budget = Duration::from_secs_f64(val.parse().unwrap_or(20.0)),
            "--replay" => shard.replay = Some(PathBuf::from(val)),
            // small workloads for the Miri add-ons / only the concurrent part for the TSan add-ons
            "--small" => { std::env::set_var("VH_SMALL", "1"); i += 1; continue; }
            "--concurrent-only" => { std::env::set_var("VH_C18_CONCURRENT_ONLY", "1"); i += 1; continue; }
            "--stress-only" => { std::env::set_var("VH_STRESS_ONLY", "1"); i += 1; continue; }
            _ => { eprintln!("unknown argument {}", args[i]); std::process::exit(2); }
        }
        i += 2;
    }
    runner::install_panic_hook();
    campaign::acc_init(shard.out.clone());
    // when the scheduler / watchdog detects a deadlock the process must exit: flush first
    runner::set_deadlock_handler(Some(std::sync::Arc::new(|msg: &str, rep: Option<&sched::SchedReport>| {
        checks::on_deadlock(msg, rep);
        campaign::with_acc(|a| a.flush());
        std::process::exit(3);
    })));
    let code = checks::run(&shard);
    campaign::with_acc(|a| { a.done = true; a.flush(); });
    std::process::exit(code);
}
