//! C03 -- the parallel solver returns the optimum for every interleaving and thread count
//! C04 -- the parallel solver always terminates (no deadlock or lost wake-up)
use std::sync::Arc;

use super::common::*;
use super::par::*;
use crate::campaign::*;
use crate::models::Fam;
use crate::runner::*;
use crate::util::{hash_of, Rng, J};
use crate::with_family;

fn judge_c03<F: Fam>(prop: &'static str, inst: &Arc<F>, spec: &CaseSpec, out: &Outcome) {
    with_acc(|a| {
        a.evaluations += 1;
        note_schedule(a, out);
        a.absorb(out, prop, &light_case(spec, inst.as_ref()));
        if out.livelock.is_some() && prop == "C03" {
            a.inconclusive("non-termination of the pooled diagram on a long-arc model (decided by C04 / C15)", light_case(spec, inst.as_ref()));
            return;
        }
        if out.sched.as_ref().map_or(false, |r| r.budget_exhausted) && out.livelock.is_none() {
            a.inconclusive("scheduler step budget exhausted", light_case(spec, inst.as_ref()));
            return;
        }
        if let Some(r) = &out.sched { if r.diverged { a.inconclusive("replay diverged from the recorded schedule", light_case(spec, inst.as_ref())); } }
        judge_optimum(a, prop, spec, inst, out);
        if let Some(r) = &out.sched {
            if r.workers_with_nodes() >= 2 {
                a.nontrivial.insert(hash_of(&(inst.ihash(), format!("{:?}", spec.cfg.json()), r.signature())));
                if a.samples.len() < a.max_samples { let j = light_case(spec, inst.as_ref()).set("nodes_by_worker", J::ints(&r.nodes_by_worker)).set("parks", J::i(r.parks)).set("optimum", inst.optimum().map_or(J::Null, J::isz)); a.sample(j); }
            }
            a.bump("distinct_schedule_signatures_upper_bound", 1);
        }
    });
}

fn sched_case<F: Fam>(spec: &CaseSpec, plan: &Plan, seed: u64, prop: &'static str) {
    let inst = Arc::new(F::generate(spec.gen_seed, spec.size, spec.variant));
    explore(&inst, spec, plan, seed, &mut |i, s, o| judge_c03(prop, i, s, o));
}

fn stress_case<F: Fam>(spec: &CaseSpec, prop: &'static str) {
    let inst = Arc::new(F::generate(spec.gen_seed, spec.size, spec.variant));
    with_acc(|a| a.current_case = Some(light_case(spec, inst.as_ref())));
    let out = run_solver(&inst, &spec.cfg);
    if std::env::var("VH_DIAG").is_ok() && inst.nvars() >= 20 {
        eprintln!("DIAG fam={} n={} dd={} cache={} fringe={:?} width={:?} threads={} -> pops={} max_fringe={} polls={} refusals={} max_refusal_run={} cutoff_fired={} wall={:?}", spec.family, inst.nvars(), spec.cfg.dd.name(), spec.cfg.cache, spec.cfg.fringe, spec.cfg.width, spec.cfg.par.as_ref().map_or(0, |p| p.n0), out.fringe.pops, out.fringe.max_len, out.polls, out.cache.must_explore_refusals, out.cache.max_refusal_run, out.cutoff_fired, out.wall);
    }
    with_acc(|a| {
        a.current_case = None;
        a.evaluations += 1;
        a.bump("stress_runs", 1);
        a.bump(&format!("stress_runs_{}_threads", spec.cfg.par.as_ref().map_or(0, |p| p.n1.unwrap_or(p.n0))), 1);
        a.absorb(&out, prop, &light_case(spec, inst.as_ref()));
        if prop == "C04" { judge_termination(a, spec, &inst, &out); }
        else if out.livelock.is_some() { a.inconclusive("non-termination of the pooled diagram on a long-arc model (decided by C04 / C15)", light_case(spec, inst.as_ref())); }
        else { judge_optimum(a, prop, spec, &inst, &out); }
        if out.fringe.pops >= 4 { a.nontrivial.insert(hash_of(&(inst.ihash(), format!("{:?}", spec.cfg.json())))); }
    });
}

/// C04: every explored schedule must end with all workers exited and maximize() returning
fn judge_termination<F: Fam>(a: &mut Acc, spec: &CaseSpec, inst: &Arc<F>, out: &Outcome) {
    const PROP: &str = "C04";
    let case = || case_json(spec, inst.as_ref()).set("observed", out.json());
    if let Some(r) = &out.sched {
        if !r.crashed.is_empty() {
            let p = out.lib_panic();
            a.violation(PROP, "worker_crash", format!("worker(s) {:?} crashed: {}", r.crashed, p.map_or("?".to_string(), |p| format!("{} at {}:{}", p.msg, p.file, p.line))),
                J::obj().set("crashed_workers", J::ints(&r.crashed)).set("panic_file", J::s(p.map_or("", |p| p.file.as_str()))), case());
            return;
        }
    }
    if let Some(p) = out.lib_panic() {
        a.violation(PROP, "worker_crash", format!("panic inside the library: {} at {}:{}", p.msg, p.file, p.line), J::obj().set("panic_file", J::s(p.file.clone())).set("panic_line", J::i(p.line)), case());
        return;
    }
    if let Some(w) = &out.livelock {
        a.violation(PROP, "non_termination", format!("maximize() does not terminate: {w}"), J::obj().set("self_requeues", J::i(out.fringe.self_requeues)), case());
        return;
    }
    if out.sched.as_ref().map_or(false, |r| r.budget_exhausted) { a.inconclusive("scheduler step budget exhausted without deadlock or livelock witness", light_case(spec, inst.as_ref())); return; }
    match out.completion {
        None => a.harness_error("maximize() did not return and no library panic was recorded".into(), case()),
        Some((is_exact, value)) => {
            // consequence of a premature completion: nodes are lost
            if !out.cutoff_fired && (value != inst.optimum() || !is_exact) {
                a.violation(PROP, "declared_complete_too_early", format!("uninterrupted run returned {value:?} (is_exact={is_exact}) but the optimum is {:?}: the search was declared complete while sub-problems were open", inst.optimum()), J::obj(), case());
            }
            if out.cutoff_fired && is_exact { a.bump("runs_where_cutoff_fired_but_exact_reported", 1); }
        }
    }
}
fn judge_c04<F: Fam>(inst: &Arc<F>, spec: &CaseSpec, out: &Outcome, n0: usize) {
    with_acc(|a| {
        a.evaluations += 1;
        note_schedule(a, out);
        a.absorb(out, "C04", &light_case(spec, inst.as_ref()));
        judge_termination(a, spec, inst, out);
        if let Some(r) = &out.sched {
            let extra_worker_got_node = r.nodes_by_worker.iter().enumerate().any(|(i, n)| i >= n0 && *n > 0);
            if extra_worker_got_node { a.bump("schedules_where_a_worker_beyond_construction_count_got_a_node", 1); }
            if out.cutoff_fired { a.bump("schedules_with_cutoff_fired", 1); }
            if r.parks > 0 || extra_worker_got_node || (out.cutoff_fired && r.workers_with_nodes() >= 2) {
                a.nontrivial.insert(hash_of(&(inst.ihash(), format!("{:?}", spec.cfg.json()), r.signature())));
                if a.samples.len() < a.max_samples { let j = light_case(spec, inst.as_ref()).set("nodes_by_worker", J::ints(&r.nodes_by_worker)).set("parks", J::i(r.parks)).set("cutoff_fired", J::Bool(out.cutoff_fired)); a.sample(j); }
            }
        }
    });
}
fn sched_case_c04<F: Fam>(spec: &CaseSpec, plan: &Plan, seed: u64) {
    let inst = Arc::new(F::generate(spec.gen_seed, spec.size, spec.variant));
    // poll indices: the reference run (no cutoff) tells how many polls there are
    let mut plan = plan.clone();
    if plan.cutoff_k > 0 {
        let mut cfg = spec.cfg.clone();
        cfg.par = None;
        let r = run_solver(&inst, &cfg);
        plan.cutoff_k = 1 + plan.cutoff_k % r.polls.max(1);
    }
    let n0 = plan.n0;
    with_acc(|a| a.bump(&format!("thread_count_pair_{}_{}", plan.n0, plan.workers()), 1));
    explore(&inst, spec, &plan, seed, &mut |i, s, o| judge_c04(i, s, o, n0));
}

pub fn run_c04(shard: &Shard) -> i32 {
    const PROP: &str = "C04";
    set_current(PROP, true);
    if let Some(path) = &shard.replay { return replay(path, PROP); }
    let stress_only = std::env::var("VH_STRESS_ONLY").is_ok();
    case_loop(shard, u64::MAX, |_i, rng| {
        if shard.idx % 4 != 3 && !stress_only {
            let long = rng.chance(1, 8);
            let spec = tiny_spec(rng, long);
            let mut plan = random_plan(rng, shard.quick());
            plan.n0 = 1 + rng.usize(4);
            if rng.chance(1, 2) { plan.n1 = Some(1 + rng.usize(4)); }
            if rng.chance(1, 2) { plan.cutoff_k = 1 + rng.below(1000); plan.poll_yields = true; }
            plan.dfs_cap = if shard.quick() { 40 } else { 300 };
            let seed = rng.next();
            with_family!(spec.family, sched_case_c04, &spec, &plan, seed);
        } else {
            let p = Profile { small: true, with_dominance: true, medium_share: 2, large_share: 10, deceptive_share: 4, ..Default::default() };
            let mut spec = random_spec(rng, &p);
            let n0 = *rng.pick(&[1usize, 2, 3, 4, 8]);
            let n1 = if rng.chance(1, 2) { Some(*rng.pick(&[1usize, 2, 3, 5, 8, 16])) } else { None };
            if rng.chance(1, 3) { spec.cfg.cutoff_k = 1 + rng.below(60); }
            spec.cfg.par = Some(Par { n0, n1, mode: if rng.chance(2, 3) && !spec.is_big() { ParMode::Delay(rng.next() >> 1) } else { ParMode::Free } });
            with_family!(spec.family, stress_case, &spec, PROP);
        }
        true
    });
    0
}

pub fn random_plan(rng: &mut Rng, quick: bool) -> Plan {
    let maxw = if rng.chance(1, 4) { 4 } else { 3 };
    let n0 = 1 + rng.usize(maxw);
    Plan {
        n0, n1: None, cutoff_k: 0, poll_yields: rng.chance(2, 3), cache_yields: rng.chance(1, 3),
        dfs_preempt: if quick || rng.chance(1, 2) { 1 } else { 2 }, dfs_cap: if quick { 60 } else { 400 }, dfs_rotate: rng.chance(1, 2),
        n_random: if quick { 6 } else { 20 }, n_pct: if quick { 3 } else { 10 }, budget: 200_000,
    }
}

pub fn run_c03(shard: &Shard) -> i32 {
    const PROP: &str = "C03";
    set_current(PROP, false);
    if let Some(path) = &shard.replay { return replay(path, PROP); }
    let stress_only = std::env::var("VH_STRESS_ONLY").is_ok();
    if std::env::var("VH_SMALL").is_ok() {
        // Miri add-on: a few 2-worker free-running solves of tiny instances under the interpreter
        let mut rng = crate::util::Rng::derive(shard.seed, &[0x33]);
        for _ in 0..10 {
            let mut spec = tiny_spec(&mut rng, false);
            spec.cfg.par = Some(Par { n0: 2, n1: None, mode: ParMode::Free });
            with_family!(spec.family, stress_case, &spec, PROP);
        }
        return 0;
    }
    case_loop(shard, u64::MAX, |_i, rng| {
        if shard.idx % 4 != 3 && !stress_only {
            let long = rng.chance(1, 6);
            let spec = tiny_spec(rng, long);
            let mut plan = random_plan(rng, shard.quick());
            // the thread count may also be set through the builder method after construction
            if rng.chance(1, 4) { plan.n1 = Some(1 + rng.usize(4)); }
            let seed = rng.next();
            with_family!(spec.family, sched_case, &spec, &plan, seed, PROP);
        } else {
            // free running threads with injected delays on small instances
            let p = Profile { small: true, with_dominance: true, medium_share: 2, large_share: if shard.idx % 8 == 7 { 5 } else { 0 }, deceptive_share: if shard.idx % 8 == 7 { 12 } else { 0 }, ..Default::default() };
            let mut spec = random_spec(rng, &p);
            let n = *rng.pick(&[2usize, 3, 4, 8, 16]);
            // injected delays on tiny / small instances only (a long search with a sleep at every event would take minutes)
            spec.cfg.par = Some(Par { n0: n, n1: None, mode: if rng.chance(2, 3) && !spec.is_big() { ParMode::Delay(rng.next() >> 1) } else { ParMode::Free } });
            with_family!(spec.family, stress_case, &spec, PROP);
        }
        true
    });
    0
}

pub fn replay(path: &std::path::Path, prop: &'static str) -> i32 {
    let text = std::fs::read_to_string(path).unwrap_or_default();
    let j = match J::parse(&text) { Ok(j) => j, Err(e) => { eprintln!("bad replay file: {e}"); return 2; } };
    let cj = j.get("case").cloned().unwrap_or(j);
    let spec = CaseSpec::from_json(&cj);
    with_acc(|a| a.current_case = Some(cj.clone()));
    with_family!(spec.family, replay_one, &spec, prop);
    0
}
fn replay_one<F: Fam>(spec: &CaseSpec, prop: &'static str) {
    let inst = Arc::new(F::generate(spec.gen_seed, spec.size, spec.variant));
    let out = run_solver(&inst, &spec.cfg);
    if prop == "C04" { let n0 = spec.cfg.par.as_ref().map_or(1, |p| p.n0); judge_c04(&inst, spec, &out, n0); } else { judge_c03(prop, &inst, spec, &out); }
}
