//! Exploration of the real parallel solver under the controlled scheduler (shared by C03, C04, C05, C02, C09, C14, C15)
use std::sync::Arc;

use crate::campaign::*;
use crate::models::Fam;
use crate::runner::*;
use crate::sched::{next_prefix, Strategy};
use crate::util::{Rng, J};

#[derive(Clone, Debug)]
pub struct Plan {
    pub n0: usize,
    pub n1: Option<usize>,
    pub cutoff_k: u64,
    pub poll_yields: bool,
    pub cache_yields: bool,
    /// bounded-exhaustive DFS: max pre-emptions and max number of schedules (0 = no DFS)
    pub dfs_preempt: usize,
    pub dfs_cap: usize,
    /// default policy of the DFS: rotating (maximal interleaving) instead of sticky
    pub dfs_rotate: bool,
    pub n_random: usize,
    pub n_pct: usize,
    pub budget: usize,
}
impl Plan {
    pub fn workers(&self) -> usize { self.n1.unwrap_or(self.n0) }
}

/// the spec with the schedule that was actually followed (replayable)
pub fn spec_with_grants(spec: &CaseSpec, plan: &Plan, out: &Outcome) -> CaseSpec {
    let mut s = spec.clone();
    let grants = out.sched.as_ref().map(|r| r.grants()).unwrap_or_default();
    s.cfg.par = Some(Par { n0: plan.n0, n1: plan.n1, mode: ParMode::Sched { strategy: Strategy::Replay(grants), budget: plan.budget, poll_yields: plan.poll_yields, cache_yields: plan.cache_yields } });
    s.cfg.cutoff_k = plan.cutoff_k;
    s
}

fn cfg_for(spec: &CaseSpec, plan: &Plan, strategy: Strategy) -> Cfg {
    let mut cfg = spec.cfg.clone();
    cfg.cutoff_k = plan.cutoff_k;
    cfg.par = Some(Par { n0: plan.n0, n1: plan.n1, mode: ParMode::Sched { strategy, budget: plan.budget, poll_yields: plan.poll_yields, cache_yields: plan.cache_yields } });
    cfg
}

/// Runs the schedules of the plan; `judge(inst, spec_with_grants, outcome)` is called after every schedule.
/// Before every schedule the case in progress is published (so that a deadlock, which forces the process to exit, can be attributed).
pub fn explore<F: Fam>(inst: &Arc<F>, spec: &CaseSpec, plan: &Plan, seed: u64, judge: &mut dyn FnMut(&Arc<F>, &CaseSpec, &Outcome)) -> usize {
    let mut n = 0;
    let mut rng = Rng::derive(seed, &[0x5C]);
    let publish = |strategy: &Strategy| {
        let cfg = cfg_for(spec, plan, strategy.clone());
        let cj = CaseSpec { cfg, ..spec.clone() }.json().set("long_arcs", J::Bool(!inst.all_impacted())).set("depth_in_state", J::Bool(inst.depth_in_state()));
        with_acc(|a| a.current_case = Some(cj));
    };
    let mut est_len = 60;
    // bounded exhaustive DFS over schedules with at most k pre-emptions
    if plan.dfs_cap > 0 {
        let mut prefix: Vec<u8> = vec![];
        loop {
            let strategy = Strategy::Prefix(prefix.clone(), plan.dfs_rotate);
            publish(&strategy);
            tick();
            let out = run_solver(inst, &cfg_for(spec, plan, strategy));
            n += 1;
            let steps = out.sched.as_ref().map(|r| r.steps.clone()).unwrap_or_default();
            est_len = steps.len().max(10);
            judge(inst, &spec_with_grants(spec, plan, &out), &out);
            if n >= plan.dfs_cap { with_acc(|a| a.bump("dfs_truncated_by_cap", 1)); break; }
            match next_prefix(&steps, plan.dfs_preempt) {
                Some(p) => prefix = p,
                None => { with_acc(|a| a.bump("dfs_spaces_exhausted", 1)); break; }
            }
        }
    }
    for _ in 0..plan.n_random {
        let strategy = Strategy::Random(rng.next());
        publish(&strategy);
        tick();
        let out = run_solver(inst, &cfg_for(spec, plan, strategy));
        n += 1;
        judge(inst, &spec_with_grants(spec, plan, &out), &out);
    }
    for _ in 0..plan.n_pct {
        let strategy = Strategy::Pct { seed: rng.next(), d: 1 + rng.usize(3), est_len };
        publish(&strategy);
        tick();
        let out = run_solver(inst, &cfg_for(spec, plan, strategy));
        n += 1;
        judge(inst, &spec_with_grants(spec, plan, &out), &out);
    }
    with_acc(|a| a.current_case = None);
    n
}

/// bookkeeping common to all scheduled campaigns
pub fn note_schedule(a: &mut Acc, out: &Outcome) {
    if let Some(r) = &out.sched {
        a.bump("schedules", 1);
        a.bump("schedule_steps", r.steps.len() as u64);
        a.bump("parks", r.parks);
        a.bump("wakeups", r.wakeups);
        a.bump("context_switches", r.context_switches);
        a.bump("preemptions", r.preemptions);
        if r.workers_with_nodes() >= 2 { a.bump("schedules_with_2plus_workers_processing_nodes", 1); }
        if r.parks > 0 { a.bump("schedules_with_a_parked_worker", 1); }
        if r.budget_exhausted { a.bump("schedules_budget_exhausted", 1); }
        if r.diverged { a.bump("schedules_diverged_from_replay", 1); }
        if !r.crashed.is_empty() { a.bump("schedules_with_crashed_worker", 1); }
        a.bump("yields_cutoff_poll", r.yields_by_site[8]);
        a.bump("yields_cache", r.yields_by_site[9] + r.yields_by_site[10]);
        a.bump("yields_dominance", r.yields_by_site[11]);
    }
    if out.cache.must_explore_refusals > 0 { a.bump("runs_where_must_explore_refused_a_node", 1); }
}

/// a tiny instance / configuration for schedule exploration (branch-and-bound trees of a handful of nodes)
pub fn tiny_spec(rng: &mut Rng, long_arcs: bool) -> CaseSpec {
    // keep instances whose sequential branch-and-bound explores 3..40 sub-problems, so that several workers really get nodes
    let mut last = None;
    let tries = if std::env::var("VH_SMALL").is_ok() { 2 } else { 30 };
    for _ in 0..tries {
        let p = Profile { long_arcs_only: long_arcs, max_width: 2, with_dominance: true, ..Default::default() };
        let mut spec = random_spec(rng, &p);
        spec.cfg.width = WidthKind::Fixed(1 + rng.usize(2));
        let explored = crate::with_family!(spec.family, seq_explored, &spec);
        let ok = (3..=40).contains(&explored);
        last = Some(spec);
        if ok { break; }
    }
    last.unwrap()
}
fn seq_explored<F: Fam>(spec: &CaseSpec) -> usize {
    let inst = Arc::new(F::generate(spec.gen_seed, spec.size, spec.variant));
    let mut cfg = spec.cfg.clone();
    cfg.par = None;
    cfg.monitors = 0;
    let out = run_solver(&inst, &cfg);
    if out.livelock.is_some() { 0 } else { out.explored }
}
