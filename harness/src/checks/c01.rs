//! C01 -- sequential branch-and-bound returns the true optimum
use std::sync::Arc;

use super::common::*;
use crate::campaign::*;
use crate::models::{kmodel, DomKind, Fam, RankKind, RubKind, Variant};
use crate::runner::*;
use crate::util::hash_of;
use crate::with_family;

const PROP: &str = "C01";

pub fn eval<F: Fam>(spec: &CaseSpec) {
    let inst = Arc::new(F::generate(spec.gen_seed, spec.size, spec.variant));
    let out = run_solver(&inst, &spec.cfg);
    with_acc(|a| {
        a.evaluations += 1;
        let case = light_case(&spec, inst.as_ref());
        a.absorb(&out, PROP, &case);
        judge_optimum(a, PROP, spec, &inst, &out);
        let squashed = out.counter("merge_calls") + out.counter("layers_wider_than_max_width");
        a.bump("fringe_pops", out.fringe.pops);
        a.bump("runs_with_squash", u64::from(squashed > 0));
        a.bump(&format!("runs_family_{}", spec.family), 1);
        a.bump(&format!("runs_dd_{}", spec.cfg.dd.name()), 1);
        if out.fringe.pops >= 2 && squashed > 0 {
            a.nontrivial.insert(hash_of(&(inst.ihash(), format!("{:?}{:?}", spec.cfg.json(), spec.variant))));
            if a.samples.len() < a.max_samples { let j = case_json(spec, inst.as_ref()).set("observed", out.json()); a.sample(j); }
        }
    });
}

pub fn run(shard: &Shard) -> i32 {
    set_current(PROP, false);
    if let Some(path) = &shard.replay { return replay(path); }
    // part 1: bounded-exhaustive knapsack grid x configuration product (a slice in the quick tier)
    let grid = kmodel::grid_len();
    let cfgs = grid_cfgs();
    let total = grid * cfgs.len() as u64;
    let stride = if shard.quick() { 7 } else { 1 };
    let grid_shard = Shard { budget: shard.budget / 3, ..shard.clone() };
    let grid_shard = Shard { only_case: None, ..grid_shard };
    case_loop(&grid_shard, if shard.only_case.is_some() { 0 } else { total / stride }, |i, _rng| {
        let j = i * stride + (shard.seed % stride);
        let (gi, ci) = (j / cfgs.len() as u64, (j % cfgs.len() as u64) as usize);
        let (cfg, variant) = cfgs[ci].clone();
        let spec = CaseSpec { family: 'K', gen_seed: gi, size: kmodel::KSZ_GRID, variant, cfg };
        eval::<kmodel::KInst>(&spec);
        with_acc(|a| a.bump("grid_cases", 1));
        true
    });
    // part 2: random instances of all families x random configurations
    let rshard = Shard { resume: 0, ..shard.clone() };
    let max = u64::MAX;
    case_loop(&rshard, max, |_i, rng| {
        let profile = Profile { with_dominance: true, small: rng.chance(1, 3), depth_free_bias: rng.chance(1, 3), medium_share: 2, large_share: if shard.idx % 8 == 7 { 8 } else { 0 }, deceptive_share: if shard.idx % 8 == 7 { 3 } else { 0 }, ..Default::default() };
        let spec = random_spec(rng, &profile);
        with_family!(spec.family, eval, &spec);
        true
    });
    0
}

fn grid_cfgs() -> Vec<(Cfg, Variant)> {
    let mut v = vec![];
    for dd in DdKind::ALL {
        for cache in [false, true] {
            for fringe in [FringeKind::Simple, FringeKind::NoDup] {
                for w in 1..=3 {
                    for rub in [RubKind::None, RubKind::Exact] {
                        for dom in [DomKind::None, DomKind::Exact] {
                            v.push((Cfg::seq(dd, cache, fringe, WidthKind::Fixed(w)), Variant { rub, rank: RankKind::Natural, dom }));
                        }
                    }
                }
            }
        }
    }
    v
}

pub fn replay(path: &std::path::Path) -> i32 {
    let text = match std::fs::read_to_string(path) { Ok(t) => t, Err(e) => { eprintln!("cannot read {path:?}: {e}"); return 2; } };
    let j = match crate::util::J::parse(&text) { Ok(j) => j, Err(e) => { eprintln!("bad replay file: {e}"); return 2; } };
    let case = j.get("case").cloned().unwrap_or(j);
    let spec = CaseSpec::from_json(&case);
    with_family!(spec.family, eval, &spec);
    0
}
