//! helpers shared by the campaigns
use std::sync::{Arc, Mutex};

use crate::campaign::*;
use crate::models::Fam;
use crate::runner::*;
use crate::sched::SchedReport;
use crate::util::{Rng, J};

static CUR: Mutex<(&'static str, bool)> = Mutex::new(("", false));
/// declares the property served by the campaign, and whether a deadlock is a violation of it
pub fn set_current(prop: &'static str, deadlock_is_violation: bool) { *CUR.lock().unwrap() = (prop, deadlock_is_violation); }

pub fn record_deadlock(msg: &str, rep: Option<&SchedReport>) {
    let (prop, counts) = *CUR.lock().unwrap();
    with_acc(|a| {
        let case = a.current_case.clone().unwrap_or(J::Null);
        let mut facts = J::obj().set("deadlock", J::Bool(true));
        let mut case = case;
        if let Some(r) = rep {
            facts = facts.set("crashed_workers", J::ints(&r.crashed)).set("parks", J::i(r.parks)).set("steps", J::i(r.steps.len()));
            // make the case replayable: store the grants
            if let Some(cfg) = case.get("cfg").cloned() {
                if let Some(par) = cfg.get("par").cloned() {
                    let par = par.set("strategy", J::s("replay")).set("grants", J::ints(&r.grants()));
                    case = case.clone().set("cfg", cfg.set("par", par));
                }
            }
        }
        a.evaluations += 1;
        // a panic inside the library is a violation of every solver level property (each presupposes that the call returns)
        let panics = crate::runner::take_panics();
        let lib_panic = panics.iter().find(|p| p.in_library()).cloned();
        let crashed = rep.map_or(false, |r| !r.crashed.is_empty()) || lib_panic.is_some();
        if let Some(p) = &lib_panic { facts = facts.set("panic_file", J::s(p.file.clone())).set("panic_line", J::i(p.line)).set("panic_msg", J::s(p.msg.clone())); }
        if counts || crashed {
            let detail = match &lib_panic { Some(p) => format!("{msg}; a worker panicked inside the library: {} at {}:{}", p.msg, p.file, p.line), None => msg.to_string() };
            a.violation(prop, if crashed { "worker_crash_then_deadlock" } else { "deadlock" }, detail, facts, case);
        } else {
            a.bump("deadlocks_seen_other_property", 1);
            a.inconclusive(&format!("deadlock (decided by C04): {msg}"), case);
        }
    });
}

/// Iterates over the case indices of this shard. `f(i, rng)` returns false to stop.
pub fn case_loop(shard: &Shard, max_cases: u64, mut f: impl FnMut(u64, &mut Rng) -> bool) {
    if let Some(i) = shard.only_case {
        CUR_INDEX.store(i, std::sync::atomic::Ordering::Relaxed);
        tick();
        let mut rng = Rng::derive(shard.seed, &[hash_str(&shard.check), i]);
        f(i, &mut rng);
        return;
    }
    let mut i = shard.resume;
    while i < max_cases {
        if i % shard.n == shard.idx {
            if !shard.time_left() { with_acc(|a| a.notes.push(format!("time budget reached at case index {i}"))); return; }
            with_acc(|a| a.next_case = i + 1);
            CUR_INDEX.store(i, std::sync::atomic::Ordering::Relaxed);
            tick();
            let mut rng = Rng::derive(shard.seed, &[hash_str(&shard.check), i]);
            if !f(i, &mut rng) { return; }
        }
        i += 1;
    }
    with_acc(|a| a.next_case = max_cases);
}
pub fn current_prop() -> &'static str { CUR.lock().map(|g| g.0).unwrap_or("") }
pub fn hash_str(s: &str) -> u64 { crate::util::hash_of(s) }

pub fn case_json<F: Fam>(spec: &CaseSpec, inst: &F) -> J { light_case(spec, inst).set("instance", inst.describe()) }
/// the case without the dump of the instance (which can be regenerated from the generator arguments)
pub fn light_case<F: Fam>(spec: &CaseSpec, inst: &F) -> J {
    spec.json().set("long_arcs", J::Bool(!inst.all_impacted())).set("depth_in_state", J::Bool(inst.depth_in_state()))
}

/// Generic verdicts on an uninterrupted solver run against the oracle optimum.
/// Returns true when the run is conclusive.
pub fn judge_optimum<F: Fam>(a: &mut Acc, prop: &'static str, spec: &CaseSpec, inst: &Arc<F>, out: &Outcome) -> bool {
    let case = || case_json(spec, inst.as_ref()).set("observed", out.json());
    if let Some(p) = out.lib_panic() {
        a.violation(prop, "panic", format!("panic inside the library: {} at {}:{}", p.msg, p.file, p.line),
            J::obj().set("panic_file", J::s(p.file.clone())).set("panic_line", J::i(p.line)).set("panic_msg", J::s(p.msg.clone())), case());
        return true;
    }
    if let Some(w) = &out.livelock {
        a.violation(prop, "non_termination", format!("maximize() does not terminate: {w}"),
            J::obj().set("self_requeues", J::i(out.fringe.self_requeues)).set("pops", J::i(out.fringe.pops)), case());
        return true;
    }
    let (is_exact, value) = match out.completion {
        Some(c) => c,
        None => { a.harness_error("maximize() did not return and no library panic was recorded".into(), case()); return false; }
    };
    if out.cutoff_fired {
        a.inconclusive("step budget exhausted without a non-termination witness", case());
        return false;
    }
    let opt = inst.optimum();
    if !is_exact {
        a.violation(prop, "not_exact", "uninterrupted maximize() reports is_exact = false".into(), J::obj(), case());
    }
    if value != opt {
        a.violation(prop, "wrong_optimum", format!("maximize() reports {value:?} but the optimum is {opt:?}"),
            J::obj().set("reported", value.map_or(J::Null, J::isz)).set("optimum", opt.map_or(J::Null, J::isz)), case());
    }
    true
}
