//! C17 -- the optimality gap is well defined and zero only at optimality
use std::sync::Arc;

use ddo::*;

use super::common::*;
use crate::campaign::*;
use crate::models::{tmodel, Fam, Oracle, Variant};
use crate::runner::*;
use crate::util::{hash_of, J};

const PROP: &str = "C17";

/// exposes chosen bounds through the *real* default method Solver::gap
struct Stub { lb: isize, ub: isize }
impl Solver for Stub {
    fn maximize(&mut self) -> Completion { Completion { is_exact: false, best_value: None } }
    fn best_value(&self) -> Option<isize> { None }
    fn best_solution(&self) -> Option<Solution> { None }
    fn best_lower_bound(&self) -> isize { self.lb }
    fn best_upper_bound(&self) -> isize { self.ub }
    fn set_primal(&mut self, _: isize, _: Solution) {}
    fn explored(&self) -> usize { 0 }
}

/// the predicate of the property on one (lb, ub, gap) triple
pub fn gap_violation(lb: isize, ub: isize, g: f32) -> Option<(&'static str, String)> {
    if g.is_nan() { return Some(("nan", format!("gap() is NaN for lb = {lb}, ub = {ub}"))); }
    if g < 0.0 { return Some(("negative", format!("gap() = {g} < 0 for lb = {lb}, ub = {ub}"))); }
    if (ub == isize::MAX || lb == isize::MIN) && g != 1.0 { return Some(("infinite_bound_not_one", format!("gap() = {g} while a bound is infinite (lb = {lb}, ub = {ub})"))); }
    if ub != isize::MAX && lb != isize::MIN {
        if lb == ub && g != 0.0 { return Some(("nonzero_at_optimality", format!("gap() = {g} although lb = ub = {lb}"))); }
        if lb != ub && g == 0.0 { return Some(("zero_while_bounds_differ", format!("gap() = 0 although lb = {lb} != ub = {ub}"))); }
        if ((lb >= 0 && ub >= 0) || (lb <= 0 && ub <= 0)) && g > 1.0 { return Some(("above_one_same_sign", format!("gap() = {g} > 1 although both bounds have the same sign (lb = {lb}, ub = {ub})"))); }
    }
    None
}

fn eval_pair(lb: isize, ub: isize, a: &mut Acc, grid: bool) {
    let r = std::panic::catch_unwind(|| Stub { lb, ub }.gap());
    a.evaluations += 1;
    let case = J::obj().set("kind", J::s("pair")).set("lb", J::Int(lb as i64)).set("ub", J::Int(ub as i64));
    match r {
        Err(_) => { let _ = take_panics(); a.violation(PROP, "panic", format!("gap() panics for lb = {lb}, ub = {ub}"), J::obj(), case); }
        Ok(g) => {
            if let Some((c, m)) = gap_violation(lb, ub, g) { a.violation(PROP, c, m, J::obj().set("gap", J::Num(g as f64)), case.clone()); }
            let interesting = lb != ub && lb != isize::MIN && ub != isize::MAX;
            if interesting { if grid { a.nt_extra += 1; } else { a.nontrivial.insert(hash_of(&(lb, ub))); } }
            if a.samples.len() < 4 && interesting && (lb < 0) != (ub < 0) { a.sample(case.set("gap", J::Num(g as f64))); }
        }
    }
}

fn solver_run(seed: u64, a_cases: &mut Vec<(isize, isize, f32, J)>, par: bool, cutoff_k: u64) {
    // family T instances: optimum may be 0, negative, or the instance infeasible
    let mut inst = tmodel::TInst::generate(seed, tmodel::SZ_TINY, Variant::plain());
    // shift the initial value so that the optimum is exactly 0 (a third of the runs) or negative (another third)
    if let Some(o) = inst.optimum() {
        match seed % 3 { 0 => inst.v0 -= o, 1 => inst.v0 -= o + 1 + (seed / 3 % 5) as isize, _ => {} }
    }
    let inst = Arc::new(inst);
    let mut cfg = Cfg::seq(DdKind::Lel, false, FringeKind::Simple, WidthKind::Fixed(2));
    cfg.cutoff_k = cutoff_k;
    if par { cfg.par = Some(Par { n0: 2, n1: None, mode: ParMode::Free }); }
    let out = run_solver(&inst, &cfg);
    if out.completion.is_some() {
        a_cases.push((out.lb, out.ub, out.gap, J::obj().set("kind", J::s("solver")).set("gen_seed", J::Int(seed as i64)).set("parallel", J::Bool(par)).set("cutoff_k", J::i(cutoff_k)).set("optimum", inst.optimum().map_or(J::Null, J::isz))));
    }
}

pub fn run(shard: &Shard) -> i32 {
    set_current(PROP, false);
    if let Some(path) = &shard.replay {
        let text = std::fs::read_to_string(path).unwrap_or_default();
        let j = match J::parse(&text) { Ok(j) => j, Err(e) => { eprintln!("bad replay file: {e}"); return 2; } };
        let cj = j.get("case").cloned().unwrap_or(j);
        if cj.gets("kind") == Some("solver") {
            let mut v = vec![];
            solver_run(cj.geti("gen_seed").unwrap_or(0) as u64, &mut v, cj.getb("parallel").unwrap_or(false), cj.geti("cutoff_k").unwrap_or(0) as u64);
            with_acc(|a| for (lb, ub, g, case) in v { a.evaluations += 1; if let Some((c, m)) = gap_violation(lb, ub, g) { a.violation(PROP, c, m, J::obj(), case); } });
        } else {
            with_acc(|a| eval_pair(cj.geti("lb").unwrap_or(0) as isize, cj.geti("ub").unwrap_or(0) as isize, a, false));
        }
        return 0;
    }
    let grid: Vec<isize> = vec![isize::MIN, isize::MIN + 1, -(1 << 62), -1_000_000_000, -1000, -2, -1, 0, 1, 2, 1000, 1_000_000_000, 1 << 62, isize::MAX - 1, isize::MAX];
    if shard.idx == 0 && shard.only_case.is_none() {
        with_acc(|a| {
            for (i, lb) in grid.iter().enumerate() { for ub in grid.iter().skip(i) { eval_pair(*lb, *ub, a, true); } }
            a.exhaustive = Some(true);
            a.notes.push(format!("grid part: all {} pairs lb <= ub over {} values (exhaustive)", grid.len() * (grid.len() + 1) / 2, grid.len()));
        });
    }
    let max_cases = if shard.quick() { 16 * 400 } else { 16 * 6000 };
    case_loop(shard, max_cases, |i, rng| {
        if rng.chance(1, 2) {
            with_acc(|a| for _ in 0..40 {
                let mag = |rng: &mut crate::util::Rng| -> isize {
                    let bits = rng.below(63);
                    let v = (rng.next() >> 1) as isize & ((1isize << bits) | ((1isize << bits) - 1));
                    if rng.chance(1, 2) { -v } else { v }
                };
                let (mut x, mut y) = (mag(rng), if rng.chance(1, 8) { 0 } else { mag(rng) });
                if rng.chance(1, 10) { y = x + rng.range(0, 2) as isize; }
                if rng.chance(1, 20) { y = -x; }
                if x > y { std::mem::swap(&mut x, &mut y); }
                eval_pair(x, y, a, false);
            });
        } else {
            let mut v = vec![];
            let k = if rng.chance(1, 2) { 0 } else { 1 + rng.below(12) };
            solver_run(rng.next() >> 12, &mut v, rng.chance(1, 3), k);
            with_acc(|a| for (lb, ub, g, case) in v {
                a.evaluations += 1;
                a.bump("solver_runs", 1);
                if lb == 0 || ub == 0 { a.bump("solver_runs_with_a_zero_bound", 1); }
                if lb < 0 && lb != isize::MIN { a.bump("solver_runs_with_negative_lower_bound", 1); }
                if lb == isize::MIN { a.bump("solver_runs_without_solution", 1); }
                if let Some((c, m)) = gap_violation(lb, ub, g) { a.violation(PROP, c, m, J::obj().set("gap", J::Num(g as f64)), case); }
                a.nontrivial.insert(hash_of(&(lb, ub, i)));
            });
        }
        true
    });
    0
}
