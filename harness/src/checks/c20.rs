//! C20 -- diagram visualisation is total and faithful
//! strict reader of the DOT subset + shadow diagram reconstructed from the callbacks of the same compilation
use std::collections::{BTreeMap, HashMap, HashSet};
use std::fmt::Debug;
use std::hash::Hash;

use ddo::*;

use super::common::*;
use super::dd::*;
use crate::campaign::*;
use crate::monitor::*;
use crate::util::{hash_of, Rng, J};
use crate::with_family;

const PROP: &str = "C20";

// ---------------------------------------------------------------------------
// strict DOT reader (the `digraph { ... }` subset that is actually needed)
// ---------------------------------------------------------------------------
#[derive(Clone, Debug, PartialEq)]
enum Tok { Id(String), Str(String), LBrace, RBrace, LBrack, RBrack, Semi, Comma, Eq, Arrow }

fn tokenize(s: &str) -> Result<Vec<Tok>, String> {
    let b: Vec<char> = s.chars().collect();
    let mut i = 0;
    let mut out = vec![];
    while i < b.len() {
        let c = b[i];
        match c {
            ' ' | '\t' | '\n' | '\r' => { i += 1; }
            '{' => { out.push(Tok::LBrace); i += 1; }
            '}' => { out.push(Tok::RBrace); i += 1; }
            '[' => { out.push(Tok::LBrack); i += 1; }
            ']' => { out.push(Tok::RBrack); i += 1; }
            ';' => { out.push(Tok::Semi); i += 1; }
            ',' => { out.push(Tok::Comma); i += 1; }
            '=' => { out.push(Tok::Eq); i += 1; }
            '-' if i + 1 < b.len() && b[i + 1] == '>' => { out.push(Tok::Arrow); i += 2; }
            '"' => {
                i += 1;
                let mut st = String::new();
                loop {
                    if i >= b.len() { return Err("unterminated quoted string".into()); }
                    match b[i] {
                        '"' => { i += 1; break; }
                        '\\' => {
                            if i + 1 >= b.len() { return Err("dangling backslash in quoted string".into()); }
                            // DOT keeps escape sequences as they are (\n, \l, \", \\)
                            st.push('\\');
                            st.push(b[i + 1]);
                            i += 2;
                        }
                        '\n' => return Err("raw newline inside a quoted string".into()),
                        ch => { st.push(ch); i += 1; }
                    }
                }
                out.push(Tok::Str(st));
            }
            c if c.is_ascii_alphanumeric() || c == '_' || c == '.' || c == '-' || c == '#' => {
                let start = i;
                while i < b.len() && (b[i].is_ascii_alphanumeric() || b[i] == '_' || b[i] == '.' || (b[i] == '-' && !(i + 1 < b.len() && b[i + 1] == '>') && i == start) || b[i] == '#') { i += 1; }
                if i == start { return Err(format!("unexpected character {c:?} at offset {i}")); }
                out.push(Tok::Id(b[start..i].iter().collect()));
            }
            c => return Err(format!("unexpected character {c:?} at offset {i}")),
        }
    }
    Ok(out)
}

#[derive(Clone, Debug, Default)]
pub struct Dot {
    pub nodes: Vec<(String, HashMap<String, String>)>,
    pub edges: Vec<(String, String, HashMap<String, String>)>,
    pub clusters: Vec<(String, Vec<String>)>,
    pub graph_attrs: Vec<(String, String)>,
}
struct P { t: Vec<Tok>, i: usize }
impl P {
    fn peek(&self) -> Option<&Tok> { self.t.get(self.i) }
    fn next(&mut self) -> Option<Tok> { let r = self.t.get(self.i).cloned(); self.i += 1; r }
    fn expect(&mut self, t: Tok) -> Result<(), String> { match self.next() { Some(x) if x == t => Ok(()), other => Err(format!("expected {t:?}, found {other:?} (token #{})", self.i)) } }
    fn id(&mut self) -> Result<String, String> { match self.next() { Some(Tok::Id(s)) | Some(Tok::Str(s)) => Ok(s), other => Err(format!("expected an identifier, found {other:?} (token #{})", self.i)) } }
    fn attrs(&mut self) -> Result<HashMap<String, String>, String> {
        let mut m = HashMap::new();
        self.expect(Tok::LBrack)?;
        loop {
            if self.peek() == Some(&Tok::RBrack) { self.i += 1; break; }
            let k = self.id()?;
            self.expect(Tok::Eq)?;
            let v = self.id()?;
            if m.insert(k.clone(), v).is_some() { return Err(format!("attribute {k} given twice")); }
            match self.peek() { Some(Tok::Comma) | Some(Tok::Semi) => { self.i += 1; } Some(Tok::RBrack) => {} other => return Err(format!("expected ',' or ']' in attribute list, found {other:?}")) }
        }
        Ok(m)
    }
    fn stmts(&mut self, dot: &mut Dot, cluster: Option<&mut Vec<String>>) -> Result<(), String> {
        let mut cluster = cluster;
        loop {
            match self.peek() {
                None => return Err("unexpected end of input: missing '}'".into()),
                Some(Tok::RBrace) => { self.i += 1; return Ok(()); }
                Some(Tok::Semi) => { self.i += 1; }
                Some(Tok::Id(s)) if s == "subgraph" => {
                    self.i += 1;
                    let name = self.id()?;
                    self.expect(Tok::LBrace)?;
                    let mut members = vec![];
                    self.stmts(dot, Some(&mut members))?;
                    dot.clusters.push((name, members));
                }
                Some(Tok::Id(_)) | Some(Tok::Str(_)) => {
                    let a = self.id()?;
                    match self.peek() {
                        Some(Tok::Arrow) => {
                            self.i += 1;
                            let b = self.id()?;
                            let at = if self.peek() == Some(&Tok::LBrack) { self.attrs()? } else { HashMap::new() };
                            dot.edges.push((a, b, at));
                        }
                        Some(Tok::Eq) => {
                            self.i += 1;
                            let v = self.id()?;
                            if cluster.is_none() { dot.graph_attrs.push((a, v)); }
                        }
                        Some(Tok::LBrack) => { let at = self.attrs()?; dot.nodes.push((a, at)); }
                        _ => {
                            // bare node statement (cluster membership)
                            match cluster.as_deref_mut() { Some(c) => c.push(a), None => dot.nodes.push((a, HashMap::new())) }
                        }
                    }
                }
                Some(other) => return Err(format!("unexpected token {other:?} (token #{})", self.i)),
            }
        }
    }
}
pub fn parse_dot(s: &str) -> Result<Dot, String> {
    let t = tokenize(s)?;
    let mut p = P { t, i: 0 };
    match p.next() { Some(Tok::Id(x)) if x == "digraph" => {}, other => return Err(format!("expected 'digraph', found {other:?}")) }
    if let Some(Tok::Id(_)) = p.peek() { p.i += 1; }
    p.expect(Tok::LBrace)?;
    let mut dot = Dot::default();
    p.stmts(&mut dot, None)?;
    if p.i != p.t.len() { return Err("trailing tokens after the closing '}'".into()); }
    Ok(dot)
}

// ---------------------------------------------------------------------------
// shadow diagram
// ---------------------------------------------------------------------------
#[derive(Clone, Debug)]
pub struct ShadowNode { pub label: String, pub deleted: bool }
#[derive(Clone, Debug, Default)]
pub struct Shadow {
    pub nodes: Vec<ShadowNode>,
    /// (from, to, var, val, cost)
    pub arcs: Vec<(usize, usize, usize, isize, isize)>,
    pub last_layer: Vec<usize>,
    pub merged_nodes: usize,
    pub deleted_nodes: usize,
    pub ambiguous: bool,
}

pub fn build_shadow<S: Clone + Eq + Hash + Debug>(input: &CompilationInput<S>, log: &[Ev<S>]) -> Shadow {
    let mut sh = Shadow::default();
    // pool: state -> node id of the nodes waiting to be moved to a layer
    let mut pool: HashMap<S, usize> = HashMap::new();
    sh.nodes.push(ShadowNode { label: format!("{:?}", input.residual.state), deleted: false });
    pool.insert(input.residual.state.as_ref().clone(), 0);
    let mut i = 0;
    // current layer: state -> id (nodes moved out of the pool for this layer) + merged node
    let mut layer: HashMap<S, usize> = HashMap::new();
    let mut last_cost_key: Option<(usize, usize, usize, isize)> = None;
    while i < log.len() {
        match &log[i] {
            Ev::NextVar { var, .. } => {
                // which nodes leave the pool for this layer ? -- look ahead at the Impacted events of this layer
                let mut j = i + 1;
                let mut answers: HashMap<S, bool> = HashMap::new();
                while j < log.len() && !matches!(log[j], Ev::NextVar { .. }) {
                    if let Ev::Impacted { state, res, .. } = &log[j] { answers.insert(state.clone(), *res); }
                    j += 1;
                }
                if var.is_none() { break; }
                // the compilation was interrupted, or the layer was empty: nothing happens after this call
                if j == i + 1 { i += 1; if pool.is_empty() { break; } continue; }
                layer.clear();
                let movers: Vec<S> = pool.keys().filter(|s| answers.get(*s).copied().unwrap_or(true)).cloned().collect();
                for s in movers { let id = pool.remove(&s).unwrap(); layer.insert(s, id); }
                // squash ? (only knowable from the events of this layer)
                let mut rubbed: HashSet<S> = HashSet::new();
                let mut merge: Option<(&Vec<S>, &S)> = None;
                for e in &log[i + 1..j] {
                    match e { Ev::Rub { state, .. } => { rubbed.insert(state.clone()); } Ev::Merge { inputs, merged } => merge = Some((inputs, merged)), _ => {} }
                }
                let squashed = match input.comp_type {
                    CompilationType::Restricted => layer.len() > input.max_width,
                    CompilationType::Relaxed => merge.is_some(),
                    CompilationType::Exact => false,
                };
                if let Some((inputs, merged)) = merge {
                    // recycled when the merged state equals a kept node (a node of the layer which is not merged away)
                    let kept = layer.iter().find(|(s, _)| *s == merged && !inputs.contains(s)).map(|(_, id)| *id);
                    if kept.is_none() {
                        let id = sh.nodes.len();
                        sh.nodes.push(ShadowNode { label: format!("{merged:?}"), deleted: false });
                        sh.merged_nodes += 1;
                        // the merged node is looked up by state when arcs are relaxed / expanded: if a node of the layer with the same state exists (merged away), the merged one shadows it
                        if let Some(old) = layer.insert(merged.clone(), id) {
                            // keep the merged away node reachable for the deletion rule
                            sh.nodes[old].deleted = true;
                            sh.deleted_nodes += 1;
                        }
                    }
                }
                if squashed {
                    for (s, id) in layer.iter() {
                        if !rubbed.contains(s) && !sh.nodes[*id].deleted { sh.nodes[*id].deleted = true; sh.deleted_nodes += 1; }
                    }
                }
                i += 1;
            }
            Ev::Transition { src, dec, dst } => {
                let from = match layer.get(src) { Some(f) => *f, None => { sh.ambiguous = true; i += 1; continue; } };
                let to = match pool.get(dst) { Some(t) => *t, None => { let id = sh.nodes.len(); sh.nodes.push(ShadowNode { label: format!("{dst:?}"), deleted: false }); pool.insert(dst.clone(), id); id } };
                last_cost_key = Some((from, to, dec.variable.0, dec.value));
                i += 1;
            }
            Ev::Cost { cost, .. } => {
                if let Some((f, t, var, val)) = last_cost_key.take() { sh.arcs.push((f, t, var, val, *cost)); } else { sh.ambiguous = true; }
                i += 1;
            }
            Ev::Relax { src, merged, dec, rcost, .. } => {
                // relaxed copies of the inbound arcs of the merged away nodes: from the node that owns the original arc
                let to = match layer.get(merged) { Some(t) => *t, None => { sh.ambiguous = true; i += 1; continue; } };
                // find the source node: the origin of an existing arc with this (state, decision)
                let from = sh.arcs.iter().rev().find(|(f, _, var, val, _)| *var == dec.variable.0 && *val == dec.value && sh.nodes[*f].label == format!("{src:?}")).map(|a| a.0);
                match from { Some(f) => sh.arcs.push((f, to, dec.variable.0, dec.value, *rcost)), None => sh.ambiguous = true }
                i += 1;
            }
            _ => { i += 1; }
        }
    }
    sh.last_layer = pool.values().copied().collect();
    sh
}

// ---------------------------------------------------------------------------
// comparison
// ---------------------------------------------------------------------------
fn first_line(label: &str) -> &str { label.split("\\n").next().unwrap_or(label) }
fn multiset<T: Eq + Hash + Clone>(xs: impl Iterator<Item = T>) -> HashMap<T, usize> { let mut m = HashMap::new(); for x in xs { *m.entry(x).or_insert(0) += 1; } m }

pub fn flags_of(bits: u32) -> VizConfig {
    VizConfig { show_value: bits & 1 != 0, show_locb: bits & 2 != 0, show_rub: bits & 4 != 0, show_threshold: bits & 8 != 0, show_deleted: bits & 16 != 0, group_merged: bits & 32 != 0 }
}

/// checks one rendering against the shadow; `full_ids` = ids declared by a rendering with show_deleted = true
fn check_render(text: &str, cfg: &VizConfig, sh: &Shadow, full_ids: Option<&HashSet<String>>) -> Result<HashSet<String>, (&'static str, String)> {
    let dot = parse_dot(text).map_err(|e| ("not_well_formed_dot", format!("the output is not accepted by the DOT reader: {e}")))?;
    let mut ids: HashSet<String> = HashSet::new();
    let mut labels: HashMap<String, String> = HashMap::new();
    for (id, at) in &dot.nodes {
        if !ids.insert(id.clone()) { return Err(("node_declared_twice", format!("node id {id} is declared more than once"))); }
        if id == "terminal" { continue; }
        let label = at.get("label").ok_or(("node_without_label", format!("node {id} has no label")))?;
        // the label lists exactly what the configuration asks for
        let lines: Vec<&str> = label.split("\\n").collect();
        let mut want = vec![];
        if cfg.show_value { want.push("val: "); }
        if cfg.show_locb { want.push("locb: "); }
        if cfg.show_rub { want.push("rub: "); }
        if cfg.show_threshold { want.push("theta: "); }
        if lines.len() != 1 + want.len() || lines.iter().skip(1).zip(want.iter()).any(|(l, w)| !l.starts_with(w)) {
            return Err(("label_does_not_follow_configuration", format!("label {label:?} of node {id} does not list exactly the items requested by the configuration {cfg:?}")));
        }
        labels.insert(id.clone(), first_line(label).to_string());
    }
    // nodes: multiset of state labels
    let want_nodes = multiset(sh.nodes.iter().filter(|n| cfg.show_deleted || !n.deleted).map(|n| n.label.clone()));
    let got_nodes = multiset(labels.values().cloned());
    if want_nodes != got_nodes {
        let missing: Vec<&String> = want_nodes.iter().filter(|(k, v)| got_nodes.get(*k).copied().unwrap_or(0) < **v).map(|(k, _)| k).collect();
        let extra: Vec<&String> = got_nodes.iter().filter(|(k, v)| want_nodes.get(*k).copied().unwrap_or(0) < **v).map(|(k, _)| k).collect();
        return Err(("nodes_differ", format!("drawn nodes differ from the diagram reconstructed from the callbacks (show_deleted={}): missing {missing:?}, unexpected {extra:?}", cfg.show_deleted)));
    }
    // edges
    let mut got_edges = vec![];
    let mut terminal_edges = 0;
    for (a, b, at) in &dot.edges {
        let known = |x: &String| ids.contains(x) || full_ids.map_or(false, |f| f.contains(x));
        if !known(a) || !known(b) { return Err(("edge_to_undeclared_node", format!("edge {a} -> {b} refers to a node that is neither declared nor hidden by the configuration"))); }
        if b == "terminal" { terminal_edges += 1; continue; }
        let label = at.get("label").ok_or(("edge_without_label", format!("edge {a} -> {b} has no label")))?;
        // the edges of a drawn node are only drawn with it; their source may be hidden? (a deleted node is never expanded)
        let (la, lb) = match (labels.get(a), labels.get(b)) { (Some(x), Some(y)) => (x.clone(), y.clone()), _ => return Err(("edge_between_hidden_nodes", format!("edge {a} -> {b} is drawn although one of its ends is hidden"))) };
        got_edges.push((la, lb, label.clone()));
    }
    let want_edges = multiset(sh.arcs.iter().filter(|a| cfg.show_deleted || !sh.nodes[a.1].deleted).map(|(f, t, var, val, c)| (sh.nodes[*f].label.clone(), sh.nodes[*t].label.clone(), format!("(x{var} = {val})\\ncost = {c}"))));
    let got_edges = multiset(got_edges.into_iter());
    if want_edges != got_edges {
        let missing: Vec<_> = want_edges.iter().filter(|(k, v)| got_edges.get(*k).copied().unwrap_or(0) < **v).map(|(k, _)| k).take(3).collect();
        let extra: Vec<_> = got_edges.iter().filter(|(k, v)| want_edges.get(*k).copied().unwrap_or(0) < **v).map(|(k, _)| k).take(3).collect();
        return Err(("edges_differ", format!("drawn edges differ from the arcs seen through the callbacks (show_deleted={}): missing {missing:?}, unexpected {extra:?}", cfg.show_deleted)));
    }
    // terminal
    let has_terminal = ids.contains("terminal");
    if has_terminal != !sh.last_layer.is_empty() { return Err(("terminal_presence", format!("terminal node drawn = {has_terminal} but the last layer holds {} node(s)", sh.last_layer.len()))); }
    if terminal_edges != sh.last_layer.len() { return Err(("terminal_edges", format!("{terminal_edges} edge(s) to the terminal but the last layer holds {} node(s)", sh.last_layer.len()))); }
    // clusters only list declared nodes
    for (name, members) in &dot.clusters {
        if !(cfg.show_deleted && cfg.group_merged) { return Err(("unexpected_cluster", format!("cluster {name} drawn although the configuration does not ask for it"))); }
        if let Some(m) = members.iter().find(|m| !ids.contains(*m)) { return Err(("cluster_undeclared_member", format!("cluster {name} lists node {m} which is not declared"))); }
    }
    Ok(ids)
}

fn viz_hook<S: Clone + Eq + Hash + Debug + Send + Sync + 'static>(ctx: &MonCtx<S>, render: &dyn Fn(&VizConfig) -> String, input: &CompilationInput<S>, log: &[Ev<S>], case: &J) -> u64 {
    let sh = build_shadow(input, log);
    if sh.ambiguous { ctx.bump("c20_shadow_ambiguous_skipped", 1); return 0; }
    let h0 = hash_of(&(ctx.ihash, ctx.dd_name, format!("{:?}", input.residual.state), input.residual.depth, input.max_width, input.best_lb, format!("{:?}", input.comp_type)));
    let mut rng = Rng::new(h0);
    // the full rendering first (universe of ids), then a sample of the other flag combinations
    let mut combos: Vec<u32> = vec![16 | 15, 15, 32 | 16];
    for _ in 0..5 { combos.push(rng.below(64) as u32); }
    let mut full_ids: Option<HashSet<String>> = None;
    let mut n = 0;
    for bits in combos {
        let cfg = flags_of(bits);
        n += 1;
        let text = match std::panic::catch_unwind(std::panic::AssertUnwindSafe(|| render(&cfg))) {
            Ok(t) => t,
            Err(_) => {
                let p = crate::runner::take_panics();
                ctx.violate(PROP, "as_graphviz_panics", format!("as_graphviz panics with {cfg:?}: {}", p.first().map_or("?".to_string(), |p| format!("{} at {}:{}", p.msg, p.file, p.line))), J::obj().set("flags", J::i(bits)).set("case", case.clone()));
                continue;
            }
        };
        ctx.bump("c20_renderings", 1);
        // progress mark of the hang watchdog: as_graphviz has returned (the parse below is the harness' own time)
        crate::campaign::tick();
        // the ids declared by a rendering that hides nothing: what 'hidden by the configuration' can refer to
        if cfg.show_deleted && full_ids.is_none() {
            if let Ok(d) = parse_dot(&text) { full_ids = Some(d.nodes.iter().map(|n| n.0.clone()).collect()); }
        }
        match check_render(&text, &cfg, &sh, full_ids.as_ref()) {
            Ok(_) => {}
            Err((clause, msg)) => ctx.violate(PROP, clause, format!("{msg} [configuration {cfg:?}]"), J::obj().set("flags", J::i(bits)).set("case", case.clone()).set("dot", J::s(if text.len() < 6000 { text.clone() } else { text[..6000].to_string() }))),
        }
        if sh.merged_nodes + sh.deleted_nodes > 0 { ctx.nontrivial(PROP, hash_of(&(h0, bits))); }
    }
    if sh.last_layer.is_empty() { ctx.bump("c20_diagrams_with_empty_last_layer", 1); }
    if sh.merged_nodes > 0 { ctx.bump("c20_diagrams_with_merged_nodes", 1); }
    if sh.deleted_nodes > 0 { ctx.bump("c20_diagrams_with_deleted_nodes", 1); }
    n
}

fn drive_viz<F: crate::models::Fam>(case: &DdCase) -> u64 {
    let props = bit(20);
    match case.dd {
        crate::runner::DdKind::Lel => drive::<F, Mdd<F::S, { LAST_EXACT_LAYER }>>(case, PROP, props, Some(&viz_hook::<F::S>)),
        crate::runner::DdKind::Fc => drive::<F, Mdd<F::S, { FRONTIER }>>(case, PROP, props, Some(&viz_hook::<F::S>)),
        crate::runner::DdKind::Pooled => drive::<F, Pooled<F::S>>(case, PROP, props, Some(&viz_hook::<F::S>)),
    }
}

pub fn run(shard: &Shard) -> i32 {
    set_current(PROP, false);
    if let Some(path) = &shard.replay {
        let text = std::fs::read_to_string(path).unwrap_or_default();
        let j = match J::parse(&text) { Ok(j) => j, Err(e) => { eprintln!("bad replay file: {e}"); return 2; } };
        let case = DdCase::from_json(&j.get("case").cloned().unwrap_or(j));
        with_family!(case.family, drive_viz, &case);
        return 0;
    }
    // self test of the reader: it must reject malformed input (otherwise "well-formed" would mean nothing)
    if shard.idx == 0 && shard.only_case.is_none() {
        let bad = ["digraph {\n\t1 [label=\"a\"b\"];\n}\n", "digraph {\n\t1 [label=\"a];\n}\n", "digraph {\n\t1 -> ;\n}\n", "digraph {\n\t1 [label=\"x\"]\n", "graph { }", "digraph { 1 [a=b,a=c]; }"];
        for b in bad { if parse_dot(b).is_ok() { with_acc(|a| a.harness_error(format!("the DOT reader accepts malformed input {b:?}"), J::Null)); } }
        let good = "digraph {\n\tranksep = 3;\n\n\t0 [shape=circle,style=filled,color=\"#99ccff\",peripheries=1,group=\"root\",label=\"K { a: 1 }\\nval: 0\"];\n\t1 [shape=square,style=filled,color=yellow,peripheries=4,group=\"0\",label=\"x\"];\n\t0 -> 1 [penwidth=3,label=\"(x0 = 1)\\ncost = -4\"];\n\tsubgraph cluster_1 {\n\t\tstyle=filled;\n\t\tcolor=purple;\n\t\t1;0\n\t};\n\tterminal [shape=\"circle\", label=\"\", style=\"filled\", color=\"black\", group=\"terminal\"];\n\t1 -> terminal [penwidth=3];\n}\n";
        match parse_dot(good) { Ok(d) => if d.nodes.len() != 3 || d.edges.len() != 2 || d.clusters.len() != 1 || d.clusters[0].1.len() != 2 { with_acc(|a| a.harness_error(format!("the DOT reader mis-parses its reference input: {d:?}"), J::Null)); }, Err(e) => with_acc(|a| a.harness_error(format!("the DOT reader rejects its reference input: {e}"), J::Null)) }
    }
    case_loop(shard, u64::MAX, |_i, rng| {
        let long = rng.chance(1, 5);
        let case = random_case(rng, false, long);
        with_family!(case.family, drive_viz, &case);
        true
    });
    0
}

#[allow(dead_code)]
fn _unused(_: BTreeMap<u8, u8>) {}
