//! One campaign per property.
use crate::campaign::*;
use crate::sched::SchedReport;

pub mod common;
pub mod c01;

pub fn run(shard: &Shard) -> i32 {
    match shard.check.as_str() {
        "c01" => c01::run(shard),
        other => { eprintln!("unknown check {other}"); 2 }
    }
}

/// called (from the scheduler / watchdog) when a deadlock is detected: records the violation for the case in progress
pub fn on_deadlock(msg: &str, rep: Option<&SchedReport>) {
    common::record_deadlock(msg, rep);
}
