//! One campaign per property.
use crate::campaign::*;
use crate::sched::SchedReport;

pub mod common;
pub mod c01;
pub mod dd;
pub mod ddprops;
pub mod par;
pub mod c03;
pub mod c05;
pub mod solverprops;
pub mod c10;
pub mod c11;
pub mod c17;
pub mod c18;
pub mod c20;

pub fn run(shard: &Shard) -> i32 {
    // replay of a case that is only known by its index in the campaign (hang verdicts)
    let mut by_index = None;
    if let Some(path) = &shard.replay {
        if let Ok(j) = crate::util::J::parse(&std::fs::read_to_string(path).unwrap_or_default()) {
            let cj = j.get("case").cloned().unwrap_or(j);
            if cj.gets("kind") == Some("case_index") {
                if let Some(i) = cj.geti("case_index") { by_index = Some(Shard { only_case: Some(i as u64), replay: None, seed: cj.geti("seed").unwrap_or(shard.seed as i64) as u64,
                    // the campaigns pick their mode from the shard number: replay as the shard that ran the case
                    idx: cj.geti("shard_idx").unwrap_or((i % 16) as i64) as u64, n: cj.geti("shard_n").unwrap_or(16) as u64,
                    tier: match cj.gets("tier") { Some("thorough") => crate::campaign::Tier::Thorough, Some(_) => crate::campaign::Tier::Quick, None => shard.tier },
                    ..shard.clone() }); }
            }
        }
    }
    let shard = by_index.as_ref().unwrap_or(shard);
    match shard.check.as_str() {
        "c01" => c01::run(shard),
        "c02" => solverprops::run_c02(shard),
        "c09" => solverprops::run_c09(shard),
        "c14" => solverprops::run_c14(shard),
        "c15" => solverprops::run_c15(shard),
        "c03" => c03::run_c03(shard),
        "c04" => c03::run_c04(shard),
        "c05" => c05::run_c05(shard),
        "c19" => c05::run_c19(shard),
        "c06" => ddprops::c06(shard),
        "c07" => ddprops::c07(shard),
        "c08" => ddprops::c08(shard),
        "c10" => c10::run(shard),
        "c11" => c11::run(shard),
        "c12" => ddprops::c12(shard),
        "c17" => c17::run(shard),
        "c18" => c18::run(shard),
        "c20" => c20::run(shard),
        "c13" => ddprops::c13(shard),
        other => { eprintln!("unknown check {other}"); 2 }
    }
}

/// called (from the scheduler / watchdog) when a deadlock is detected: records the violation for the case in progress
pub fn on_deadlock(msg: &str, rep: Option<&SchedReport>) {
    common::record_deadlock(msg, rep);
}
