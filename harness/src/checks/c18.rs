//! C18 -- cache and dominance stores match their sequential spec, also under concurrency
use std::collections::HashMap;
use std::sync::atomic::{AtomicU64, Ordering as AO};
use std::sync::{Arc, Mutex};

use ddo::*;

use super::c10::{dominates, q_json, ref_dominated, DState, Query, TestDom};
use super::common::*;
use crate::campaign::*;
use crate::util::{hash_of, Rng, J};

const PROP: &str = "C18";

struct Dummy(usize);
impl Problem for Dummy {
    type State = u8;
    fn nb_variables(&self) -> usize { self.0 }
    fn initial_state(&self) -> u8 { 0 }
    fn initial_value(&self) -> isize { 0 }
    fn transition(&self, s: &u8, _: Decision) -> u8 { *s }
    fn transition_cost(&self, _: &u8, _: &u8, _: Decision) -> isize { 0 }
    fn next_variable(&self, _: usize, _: &mut dyn Iterator<Item = &u8>) -> Option<Variable> { None }
    fn for_each_in_domain(&self, _: Variable, _: &u8, _: &mut dyn DecisionCallback) {}
}

#[derive(Clone, Copy, Debug, PartialEq, Eq, Hash)]
pub enum COp { Update { s: u8, d: u8, v: i8, e: bool }, Get { s: u8, d: u8 }, ClearLayer(u8), Clear }
fn cop_json(o: &COp) -> J {
    J::s(match o {
        COp::Update { s, d, v, e } => format!("update(state={s},depth={d},value={v},explored={e})"),
        COp::Get { s, d } => format!("get(state={s},depth={d})"),
        COp::ClearLayer(d) => format!("clear_layer({d})"),
        COp::Clear => "clear()".to_string(),
    })
}
fn cop_raw(o: &COp) -> J {
    match o {
        COp::Update { s, d, v, e } => J::ints(&[0, *s as i64, *d as i64, *v as i64, *e as i64]),
        COp::Get { s, d } => J::ints(&[1, *s as i64, *d as i64]),
        COp::ClearLayer(d) => J::ints(&[2, *d as i64]),
        COp::Clear => J::ints(&[3i64]),
    }
}
fn cop_unraw(j: &J) -> COp {
    let a: Vec<i64> = j.as_arr().map(|a| a.iter().filter_map(|x| x.as_i64()).collect()).unwrap_or_default();
    match a[0] { 0 => COp::Update { s: a[1] as u8, d: a[2] as u8, v: a[3] as i8, e: a[4] != 0 }, 1 => COp::Get { s: a[1] as u8, d: a[2] as u8 }, 2 => COp::ClearLayer(a[1] as u8), _ => COp::Clear }
}
fn cache_alphabet() -> Vec<COp> {
    let mut a = vec![COp::Clear];
    for d in 0..2u8 {
        a.push(COp::ClearLayer(d));
        for s in 0..2u8 {
            a.push(COp::Get { s, d });
            for v in 0..3i8 { for e in [false, true] { a.push(COp::Update { s, d, v, e }); } }
        }
    }
    a
}
/// naive model: list of updates since the last clear of that layer; answer = lexicographic max of (value, explored)
fn run_cache_sequence(seq: &[COp]) -> (Option<(&'static str, String)>, bool) {
    let mut cache = SimpleCache::<u8>::default();
    cache.initialize(&Dummy(2));
    let mut model: HashMap<(u8, u8), Vec<(isize, bool)>> = HashMap::new();
    let mut nontrivial = false;
    let check = |cache: &SimpleCache<u8>, model: &HashMap<(u8, u8), Vec<(isize, bool)>>, s: u8, d: u8, i: usize| -> Option<(&'static str, String)> {
        let got = cache.get_threshold(&s, d as usize).map(|t| (t.value, t.explored));
        let want = model.get(&(s, d)).and_then(|l| l.iter().copied().max());
        if got != want { Some(("cache_sequential_spec", format!("after operation #{i}: get_threshold(state {s}, depth {d}) = {got:?} but the recorded maximum is {want:?}"))) } else { None }
    };
    for (i, op) in seq.iter().enumerate() {
        match *op {
            COp::Update { s, d, v, e } => {
                cache.update_threshold(Arc::new(s), d as usize, v as isize, e);
                let l = model.entry((s, d)).or_default();
                if !l.is_empty() { nontrivial = true; }
                l.push((v as isize, e));
            }
            COp::Get { s, d } => { if let Some(v) = check(&cache, &model, s, d, i) { return (Some(v), nontrivial); } }
            COp::ClearLayer(d) => { cache.clear_layer(d as usize); model.retain(|k, _| k.1 != d); }
            COp::Clear => { cache.clear(); model.clear(); }
        }
        // must_explore (default method) agrees with the threshold
        for s in 0..2u8 { for d in 0..2u8 {
            if let Some(v) = check(&cache, &model, s, d, i) { return (Some(v), nontrivial); }
        } }
    }
    // default method must_explore against the model
    for s in 0..2u8 { for d in 0..2u8 { for v in 0..3isize {
        let sp = SubProblem { state: Arc::new(s), value: v, path: vec![], ub: 10, depth: d as usize };
        let want = match model.get(&(s, d)).and_then(|l| l.iter().copied().max()) { None => true, Some((t, e)) => v > t || (v == t && !e) };
        if cache.must_explore(&sp) != want {
            return (Some(("must_explore_spec", format!("must_explore(state {s}, depth {d}, value {v}) = {} but the recorded threshold implies {want}", !want))), nontrivial);
        }
    } } }
    (None, nontrivial)
}
fn judge_cache(seq: &[COp], a: &mut Acc, exhaustive: bool) {
    tick();
    let (viol, nt) = match std::panic::catch_unwind(|| run_cache_sequence(seq)) {
        Ok(r) => r,
        Err(_) => {
            let p = crate::runner::take_panics();
            match p.iter().find(|x| x.in_library()) {
                Some(p) => (Some(("panic", format!("panic inside the library: {} at {}:{}", p.msg, p.file, p.line))), false),
                None => { a.harness_error(format!("panic outside the library while running a cache sequence: {:?}", p.first().map(|x| (&x.msg, &x.file, x.line))), J::Null); (None, false) }
            }
        }
    };
    a.evaluations += 1;
    if nt {
        if exhaustive { a.nt_extra += 1; } else { a.nontrivial.insert(hash_of(seq)); }
        if a.samples.len() < 2 && seq.len() >= 4 { a.sample(J::obj().set("kind", J::s("cache sequence")).set("ops", J::Arr(seq.iter().map(cop_json).collect()))); }
    }
    if let Some((clause, msg)) = viol {
        a.violation(PROP, clause, msg, J::obj().set("store", J::s("cache")), J::obj().set("kind", J::s("cache_sequence")).set("ops", J::Arr(seq.iter().map(cop_json).collect())).set("ops_raw", J::Arr(seq.iter().map(cop_raw).collect())));
    }
}
fn enumerate(alpha: &[COp], seq: &mut Vec<COp>, maxlen: usize, a: &mut Acc) {
    if seq.len() >= maxlen { return; }
    for op in alpha {
        seq.push(*op);
        judge_cache(seq, a, true);
        enumerate(alpha, seq, maxlen, a);
        seq.pop();
    }
}

// ---------------------------------------------------------------------------
// concurrent histories
// ---------------------------------------------------------------------------
/// Barrier that busy-waits: the threads leave it within nanoseconds of each other (an OS barrier wakes them up
/// one after the other, microseconds apart, and the short bursts of operations would then never overlap)
pub struct Barrier { n: usize, arrived: AtomicU64 }
impl Barrier {
    pub fn new(n: usize) -> Self { Barrier { n, arrived: AtomicU64::new(0) } }
    pub fn wait(&self) {
        let ticket = self.arrived.fetch_add(1, AO::SeqCst);
        let target = (ticket / self.n as u64 + 1) * self.n as u64;
        let mut spins = 0u64;
        while self.arrived.load(AO::SeqCst) < target {
            spins += 1;
            if spins > 20_000 || cfg!(miri) { std::thread::yield_now(); } else { std::hint::spin_loop(); }
        }
    }
}

#[derive(Clone, Debug)]
struct CRec { thread: usize, update: Option<(isize, bool)>, s: u8, d: u8, result: Option<(isize, bool)>, inv: u64, res: u64 }

fn spin(rng: &mut Rng) {
    match rng.below(16) {
        0 => std::thread::yield_now(),
        1 | 2 => { for _ in 0..rng.below(200) { std::hint::spin_loop(); } }
        _ => {}
    }
}

/// one concurrent cache history; returns the number of overlapping same-key pairs
pub fn cache_concurrent(seed: u64, threads: usize, ops: usize, keys: usize, a_out: &mut Vec<(&'static str, String, J)>) -> (u64, u64) {
    let mut cache = SimpleCache::<u8>::default();
    cache.initialize(&Dummy(3));
    let cache = &cache;
    let clock = AtomicU64::new(1);
    let clock = &clock;
    let barrier = Barrier::new(threads);
    let barrier = &barrier;
    let logs: Vec<Mutex<Vec<CRec>>> = (0..threads).map(|_| Mutex::new(vec![])).collect();
    let logs = &logs;
    // phase 1: everybody hammers `keys` keys of depths 0 and 1. phase 2: thread 0 clears layer 2 while others keep hammering depth 0/1,
    // and thread 1 writes to layer 2 only *before* the barrier (so that the clear is not concurrent with traffic on its own layer)
    std::thread::scope(|sc| {
        for t in 0..threads {
            sc.spawn(move || {
                let mut rng = Rng::derive(seed, &[t as u64, 0xCAC]);
                let mut local = vec![];
                let mut counter = 0isize;
                if t == 1 % threads { cache.update_threshold(Arc::new(9), 2, 77, true); }
                barrier.wait();
                for phase in 0..2 {
                    for i in 0..ops {
                        let k = rng.usize(keys);
                        let (s, d) = ((k % 32) as u8, (k / 32 % 2) as u8);
                        spin(&mut rng);
                        if phase == 1 && t == 0 && i == ops / 2 { cache.clear_layer(2); }
                        if rng.chance(1, 2) {
                            counter += 1;
                            let v = counter * threads as isize + t as isize; // unique per (thread, counter)
                            let e = rng.chance(1, 2);
                            let inv = clock.fetch_add(1, AO::SeqCst);
                            cache.update_threshold(Arc::new(s), d as usize, v, e);
                            let res = clock.fetch_add(1, AO::SeqCst);
                            local.push(CRec { thread: t, update: Some((v, e)), s, d, result: None, inv, res });
                        } else {
                            let inv = clock.fetch_add(1, AO::SeqCst);
                            let r = cache.get_threshold(&s, d as usize).map(|x| (x.value, x.explored));
                            let res = clock.fetch_add(1, AO::SeqCst);
                            local.push(CRec { thread: t, update: None, s, d, result: r, inv, res });
                        }
                    }
                    barrier.wait();
                }
                *logs[t].lock().unwrap() = local;
            });
        }
    });
    let mut all: Vec<CRec> = logs.iter().flat_map(|l| l.lock().unwrap().clone()).collect();
    all.sort_by_key(|r| r.inv);
    let mut overlaps = 0u64;
    let mut by_key: HashMap<(u8, u8), Vec<&CRec>> = HashMap::new();
    for r in &all { by_key.entry((r.s, r.d)).or_default().push(r); }
    let case = || J::obj().set("kind", J::s("cache_concurrent")).set("seed", J::Int(seed as i64)).set("threads", J::i(threads)).set("ops", J::i(ops)).set("keys", J::i(keys));
    for ((s, d), recs) in &by_key {
        let updates: Vec<&&CRec> = recs.iter().filter(|r| r.update.is_some()).collect();
        // overlapping intervals of different threads on the same key
        for (i, x) in recs.iter().enumerate() {
            for y in recs.iter().skip(i + 1) {
                if y.inv > x.res { break; }
                if y.thread != x.thread { overlaps += 1; }
            }
        }
        let mut last_get: HashMap<usize, Option<(isize, bool)>> = HashMap::new();
        let mut done_gets: Vec<(u64, Option<(isize, bool)>)> = vec![]; // (res stamp, result)
        for g in recs.iter().filter(|r| r.update.is_none()) {
            let r = g.result;
            // nothing invented
            match r {
                None => {}
                Some(t) => if !updates.iter().any(|u| u.update == Some(t) && u.inv < g.res) {
                    a_out.push(("cache_invented_value", format!("key (state {s}, depth {d}): get returned {t:?} which no update invoked before the response of this get wrote"), case()));
                },
            }
            // no lost update, never decreases
            for u in updates.iter().filter(|u| u.res < g.inv) {
                if r < u.update {
                    a_out.push(("cache_lost_update", format!("key (state {s}, depth {d}): get returned {r:?} although update {:?} had completed before the get was invoked", u.update.unwrap()), case()));
                    break;
                }
            }
            if let Some(prev) = last_get.get(&g.thread) { if r < *prev { a_out.push(("cache_decreased", format!("key (state {s}, depth {d}): successive gets of thread {} returned {prev:?} then {r:?}", g.thread), case())); } }
            last_get.insert(g.thread, r);
            for (res, pr) in &done_gets { if *res < g.inv && r < *pr { a_out.push(("cache_decreased", format!("key (state {s}, depth {d}): a get that completed earlier returned {pr:?}, a later get returned {r:?}"), case())); break; } }
            done_gets.push((g.res, r));
        }
        // final value
        let want = updates.iter().filter_map(|u| u.update).max();
        let got = cache.get_threshold(s, *d as usize).map(|t| (t.value, t.explored));
        if got != want { a_out.push(("cache_final_value", format!("key (state {s}, depth {d}): after quiescence get returns {got:?} but the maximum of all updates is {want:?}"), case())); }
    }
    // clear_layer(2) concurrent with traffic on other layers
    if cache.get_threshold(&9, 2).is_some() { a_out.push(("cache_clear_layer_ineffective", "clear_layer(2) left an entry of layer 2 behind".to_string(), case())); }
    (overlaps, all.len() as u64)
}

#[derive(Clone, Debug)]
struct DRec { thread: usize, q: Query, dominated: bool, threshold: Option<isize>, inv: u64, res: u64 }

pub fn dominance_concurrent(seed: u64, threads: usize, ops: usize, use_value: bool, a_out: &mut Vec<(&'static str, String, J)>) -> (u64, u64) {
    let chk = SimpleDominanceChecker::new(TestDom { use_value }, 2);
    let chk = &chk;
    let clock = AtomicU64::new(1);
    let clock = &clock;
    let barrier = Barrier::new(threads);
    let barrier = &barrier;
    let logs: Vec<Mutex<Vec<DRec>>> = (0..threads).map(|_| Mutex::new(vec![])).collect();
    let logs = &logs;
    std::thread::scope(|sc| {
        for t in 0..threads {
            sc.spawn(move || {
                let mut rng = Rng::derive(seed, &[t as u64, 0xD0]);
                let mut local = vec![];
                // a third of the histories use large coordinates (fronts of many incomparable entries)
                let (m0, m1) = if seed % 3 == 0 { (24u64, 24u64) } else { (4, 3) };
                barrier.wait();
                for _ in 0..ops {
                    let q = Query { s: DState { key: rng.below(2) as i8, c0: rng.below(m0) as i8, c1: rng.below(m1) as i8 }, depth: rng.below(2) as u8, value: rng.below(4) as i8 };
                    spin(&mut rng);
                    let inv = clock.fetch_add(1, AO::SeqCst);
                    let r = chk.is_dominated_or_insert(Arc::new(q.s), q.depth as usize, q.value as isize);
                    let res = clock.fetch_add(1, AO::SeqCst);
                    local.push(DRec { thread: t, q, dominated: r.dominated, threshold: r.threshold, inv, res });
                }
                barrier.wait();
                *logs[t].lock().unwrap() = local;
            });
        }
    });
    let mut all: Vec<DRec> = logs.iter().flat_map(|l| l.lock().unwrap().clone()).collect();
    all.sort_by_key(|r| r.inv);
    let case = || J::obj().set("kind", J::s("dominance_concurrent")).set("seed", J::Int(seed as i64)).set("threads", J::i(threads)).set("ops", J::i(ops)).set("use_value", J::Bool(use_value));
    let mut overlaps = 0u64;
    for (i, x) in all.iter().enumerate() {
        for y in all.iter().skip(i + 1) {
            if y.inv > x.res { break; }
            if y.thread != x.thread && y.q.s.key == x.q.s.key && y.q.depth == x.q.depth { overlaps += 1; }
        }
        let same = |y: &&DRec| y.q.depth == x.q.depth && (y.inv != x.inv);
        if x.dominated {
            if !all.iter().filter(same).any(|y| y.inv < x.res && dominates(&y.q.s, y.q.value as isize, &x.q.s, x.q.value as isize, use_value)) {
                a_out.push(("dominance_false_domination", format!("{:?} was answered dominated but no call invoked before its response presented a dominating entry", x.q), case()));
            }
            if let Some(t) = x.threshold {
                if t < x.q.value as isize { a_out.push(("dominance_threshold_below_value", format!("{:?}: threshold {t} below the presented value", x.q), case())); }
                if !all.iter().filter(same).any(|y| y.inv < x.res && dominates(&y.q.s, y.q.value as isize, &x.q.s, t, use_value)) {
                    a_out.push(("dominance_threshold_unsound", format!("{:?}: threshold {t}, but no entry presented before the response dominates the state at that value", x.q), case()));
                }
            } else { a_out.push(("dominance_threshold_missing", format!("{:?}: dominated without threshold", x.q), case())); }
        } else if let Some(y) = all.iter().filter(same).find(|y| y.res < x.inv && dominates(&y.q.s, y.q.value as isize, &x.q.s, x.q.value as isize, use_value)) {
            a_out.push(("dominance_missed_domination", format!("{:?} was answered not dominated although {:?} had been presented by a call that completed before", x.q, y.q), case()));
        }
    }
    // after quiescence: the store answers every query of the universe exactly as the Pareto front of everything presented
    let mut reference: Vec<(DState, u8, isize)> = all.iter().map(|r| (r.q.s, r.q.depth, r.q.value as isize)).collect();
    let (fm0, fm1) = if seed % 3 == 0 { (24i8, 24i8) } else { (4, 3) };
    for key in 0..2i8 { for c0 in 0..fm0 { for c1 in 0..fm1 { for depth in 0..2u8 { for value in 0..4i8 {
        let s = DState { key, c0, c1 };
        let got = chk.is_dominated_or_insert(Arc::new(s), depth as usize, value as isize).dominated;
        let want = ref_dominated(&reference, &s, depth, value as isize, use_value);
        if got != want {
            a_out.push(("dominance_final_state", format!("after quiescence, query (key {key}, coords ({c0},{c1}), depth {depth}, value {value}) is answered dominated={got} but the Pareto front of all presented entries says {want}"), case()));
        }
        reference.push((s, depth, value as isize));
    } } } } }
    (overlaps, all.len() as u64)
}

pub fn concurrent_round(rng: &mut Rng, a: &mut Acc, small: bool) {
    tick();
    let threads = if small { 3 } else { *rng.pick(&[2usize, 3, 4, 8, 16]) };
    let ops = if small { 40 } else { 50 + rng.usize(250) };
    let seed = rng.next() >> 8;
    let which = rng.chance(1, 2);
    // few keys (maximal contention on one entry) or many (all the shards of the map, growth of the tables)
    let keys = if rng.chance(1, 4) { 64 } else { 1 + rng.usize(3) };
    let uv = rng.chance(1, 2);
    // a panic of a library call inside one of the threads propagates out of the scope: it is a violation
    let round = std::panic::catch_unwind(std::panic::AssertUnwindSafe(|| { let mut v = vec![]; let r = if which { cache_concurrent(seed, threads, ops, keys, &mut v) } else { dominance_concurrent(seed, threads, ops, uv, &mut v) }; (r, v) }));
    let (pre, mut v) = match round {
        Ok((r, v)) => (r, v),
        Err(_) => {
            let p = crate::runner::take_panics();
            a.evaluations += 1;
            match p.iter().find(|x| x.in_library()) {
                Some(p) => a.violation(PROP, "panic", format!("panic inside the library during a concurrent history: {} at {}:{}", p.msg, p.file, p.line), J::obj(), J::obj().set("kind", J::s(if which { "cache_concurrent" } else { "dominance_concurrent" })).set("seed", J::Int(seed as i64)).set("threads", J::i(threads)).set("ops", J::i(ops)).set("keys", J::i(keys)).set("use_value", J::Bool(uv))),
                None => a.harness_error(format!("panic outside the library during a concurrent history: {:?}", p.first().map(|x| (&x.msg, &x.file, x.line))), J::Null),
            }
            return;
        }
    };
    let (ov, n) = if which {
        let r = pre;
        a.bump("cache_concurrent_histories", 1);
        a.bump("cache_concurrent_operations", r.1);
        a.bump("cache_overlapping_same_key_pairs", r.0);
        r
    } else {
        let r = pre;
        a.bump("dominance_concurrent_histories", 1);
        a.bump("dominance_concurrent_operations", r.1);
        a.bump("dominance_overlapping_same_key_pairs", r.0);
        r
    };
    a.evaluations += 1;
    a.bump(&format!("histories_with_{threads}_threads"), 1);
    let _ = n;
    if ov > 0 { a.nontrivial.insert(hash_of(&(seed, threads, ops))); }
    if a.samples.len() < 5 && ov > 0 { a.sample(J::obj().set("kind", J::s("concurrent history")).set("threads", J::i(threads)).set("ops_per_thread_and_phase", J::i(ops)).set("overlapping_same_key_pairs", J::i(ov)).set("seed", J::Int(seed as i64))); }
    for (clause, msg, case) in v.into_iter().take(5) { a.violation(PROP, clause, msg, J::obj().set("store", J::s(if clause.starts_with("cache") { "cache" } else { "dominance" })), case); }
}

pub fn run(shard: &Shard) -> i32 {
    set_current(PROP, false);
    if let Some(path) = &shard.replay {
        let text = std::fs::read_to_string(path).unwrap_or_default();
        let j = match J::parse(&text) { Ok(j) => j, Err(e) => { eprintln!("bad replay file: {e}"); return 2; } };
        let cj = j.get("case").cloned().unwrap_or(j);
        match cj.gets("kind") {
            Some("cache_sequence") => {
                let seq: Vec<COp> = cj.get("ops_raw").and_then(|a| a.as_arr()).map(|a| a.iter().map(cop_unraw).collect()).unwrap_or_default();
                with_acc(|a| judge_cache(&seq, a, false));
            }
            Some("cache_concurrent") => {
                // a concurrent history cannot be replayed exactly (real threads); re-run the same workload 200 times
                let mut v = vec![];
                for k in 0..200 { cache_concurrent(cj.geti("seed").unwrap_or(1) as u64 + k, cj.geti("threads").unwrap_or(4) as usize, cj.geti("ops").unwrap_or(100) as usize, cj.geti("keys").unwrap_or(1) as usize, &mut v); }
                with_acc(|a| { a.evaluations += 200; for (c, m, case) in v.into_iter().take(3) { a.violation(PROP, c, m, J::obj(), case); } });
            }
            _ => {
                let mut v = vec![];
                for k in 0..200 { dominance_concurrent(cj.geti("seed").unwrap_or(1) as u64 + k, cj.geti("threads").unwrap_or(4) as usize, cj.geti("ops").unwrap_or(100) as usize, cj.getb("use_value").unwrap_or(true), &mut v); }
                with_acc(|a| { a.evaluations += 200; for (c, m, case) in v.into_iter().take(3) { a.violation(PROP, c, m, J::obj(), case); } });
            }
        }
        return 0;
    }
    // only the concurrent part (used by the TSan / Miri add-ons)
    let conc_only = std::env::var("VH_C18_CONCURRENT_ONLY").is_ok();
    let small = std::env::var("VH_SMALL").is_ok();
    if !conc_only && shard.only_case.is_none() {
        // (a) exhaustive cache sequences, sharded by the first operation
        let alpha = cache_alphabet();
        let maxlen = if shard.quick() { 4 } else { 5 };
        let mut complete = true;
        for (i0, op0) in alpha.iter().enumerate() {
            if i0 as u64 % shard.n != shard.idx { continue; }
            if shard.start.elapsed() > shard.budget / 2 { complete = false; break; }
            let mut seq = vec![*op0];
            with_acc(|a| { judge_cache(&seq, a, true); enumerate(&alpha, &mut seq, maxlen, a); });
        }
        with_acc(|a| { a.exhaustive = Some(complete); a.notes.push(format!("exhaustive part: all cache operation sequences up to length {maxlen} over {} operations, complete = {complete}", alpha.len())); });
    }
    // (b) concurrent histories (real threads) and random sequential sequences of both stores.
    // To limit oversubscription only a quarter of the shards run real-thread histories at a time.
    case_loop(shard, if small { 16 } else { u64::MAX }, |_i, rng| {
        if conc_only || shard.idx % 4 == 0 {
            with_acc(|a| concurrent_round(rng, a, small));
        } else if rng.chance(1, 2) {
            let alpha = cache_alphabet();
            let seq: Vec<COp> = (0..10 + rng.usize(190)).map(|_| *rng.pick(&alpha)).collect();
            with_acc(|a| { judge_cache(&seq, a, false); a.bump("random_cache_sequences", 1); });
        } else {
            let len = 10 + rng.usize(190);
            let seq = super::c10::random_queries(rng, len, 2);
            let uv = rng.chance(1, 2);
            let (viol, nt) = super::c10::run_sequence(&seq, uv);
            with_acc(|a| {
                a.evaluations += 1;
                a.bump("random_dominance_sequences", 1);
                if nt { a.nontrivial.insert(hash_of(&(&seq, uv))); }
                if let Some((clause, msg)) = viol {
                    a.violation(PROP, clause, msg, J::obj().set("store", J::s("dominance")), J::obj().set("kind", J::s("dominance_sequence")).set("use_value", J::Bool(uv)).set("queries", J::Arr(seq.iter().map(q_json).collect())));
                }
            });
        }
        true
    });
    0
}
