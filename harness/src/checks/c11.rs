//! C11 -- fringes are faithful priority queues; dedup never merges distinct sub-problems
use std::cmp::Ordering;
use std::collections::HashMap;
use std::sync::Arc;

use ddo::*;

use super::common::*;
use crate::campaign::*;
use crate::models::Fam;
use crate::runner::*;
use crate::util::{hash_of, Rng, J};
use crate::with_family;

const PROP: &str = "C11";

#[derive(Clone, Copy, Debug, PartialEq, Eq, Hash)]
pub enum Op { Push { s: u8, d: u8, v: i8, ub: i8 }, Pop, Clear }

struct Rank;
impl StateRanking for Rank {
    type State = u8;
    fn compare(&self, a: &u8, b: &u8) -> Ordering { a.cmp(b) }
}
#[derive(Clone, Debug)]
struct Entry { ids: Vec<usize>, s: u8, d: u8, v: isize, ub: isize }

fn key_cmp(a: &Entry, b: &Entry) -> Ordering { a.ub.cmp(&b.ub).then(a.v.cmp(&b.v)).then(a.s.cmp(&b.s)) }

fn op_json(op: &Op) -> J {
    match op {
        Op::Push { s, d, v, ub } => J::s(format!("push(state={s},depth={d},value={v},ub={ub})")),
        Op::Pop => J::s("pop"),
        Op::Clear => J::s("clear"),
    }
}
fn hist_json(h: &[Op]) -> J { J::Arr(h.iter().map(op_json).collect()) }

/// runs one history against one fringe; returns (violation, coalesced_then_popped)
/// `share`: pushes of equal states share one `Arc` (as clones of a sub-problem do); otherwise every push allocates its own
fn run_history(h: &[Op], nodup: bool, share: bool) -> (Option<(&'static str, String)>, bool) {
    let mut arcs: Vec<Option<Arc<u8>>> = vec![None; 256];
    let rank = Rank;
    let mut simple;
    let mut nd;
    let fr: &mut dyn Fringe<State = u8> = if nodup { nd = NoDupFringe::new(MaxUB::new(&rank)); &mut nd } else { simple = SimpleFringe::new(MaxUB::new(&rank)); &mut simple };
    let mut model: Vec<Entry> = vec![];
    let mut coalesced = false;
    let mut nontrivial = false;
    let name = if nodup { "NoDupFringe" } else { "SimpleFringe" };
    let mut check_pop = |fr: &mut dyn Fringe<State = u8>, model: &mut Vec<Entry>, step: usize| -> Option<(&'static str, String)> {
        let got = fr.pop();
        match got {
            None => if !model.is_empty() { return Some(("pop_lost", format!("{name}: pop #{step} returned None while {} sub-problem(s) are in the queue", model.len()))); },
            Some(n) => {
                let id = match n.path.first() { Some(d) => d.variable.0, None => return Some(("pop_invented", format!("{name}: pop #{step} returned a sub-problem that was never pushed"))) };
                let pos = model.iter().position(|e| e.ids.contains(&id));
                let pos = match pos { Some(p) => p, None => return Some(("pop_invented", format!("{name}: pop #{step} returned push #{id} which is not in the queue (lost earlier, popped twice, or wrong path kept)"))) };
                let e = model[pos].clone();
                if *n.state != e.s || n.depth != e.d as usize {
                    return Some(("coalesced_distinct", format!("{name}: pop #{step} returned (state {}, depth {}) carrying the path of push #{id} which was (state {}, depth {})", n.state, n.depth, e.s, e.d)));
                }
                if n.value != e.v || n.ub != e.ub {
                    return Some(("survivor_wrong", format!("{name}: pop #{step} returned (value {}, ub {}) for (state {}, depth {}) but the reference holds (value {}, ub {})", n.value, n.ub, e.s, e.d, e.v, e.ub)));
                }
                if let Some(better) = model.iter().find(|o| key_cmp(o, &e) == Ordering::Greater) {
                    return Some(("pop_order", format!("{name}: pop #{step} returned (ub {}, value {}, state {}) while (ub {}, value {}, state {}) is in the queue", e.ub, e.v, e.s, better.ub, better.v, better.s)));
                }
                model.remove(pos);
            }
        }
        None
    };
    for (step, op) in h.iter().enumerate() {
        match *op {
            Op::Push { s, d, v, ub } => {
                let id = step;
                let st = if share { arcs[s as usize].get_or_insert_with(|| Arc::new(s)).clone() } else { Arc::new(s) };
                let sp = SubProblem { state: st, value: v as isize, path: vec![Decision { variable: Variable(id), value: id as isize }], ub: ub as isize, depth: d as usize };
                fr.push(sp);
                if nodup {
                    if let Some(e) = model.iter_mut().find(|e| e.s == s && e.d == d) {
                        coalesced = true;
                        match (v as isize).cmp(&e.v) {
                            Ordering::Greater => { e.v = v as isize; e.ids = vec![id]; }
                            Ordering::Equal => e.ids.push(id),
                            Ordering::Less => {}
                        }
                        e.ub = e.ub.max(ub as isize);
                    } else {
                        model.push(Entry { ids: vec![id], s, d, v: v as isize, ub: ub as isize });
                    }
                } else {
                    model.push(Entry { ids: vec![id], s, d, v: v as isize, ub: ub as isize });
                }
            }
            Op::Pop => {
                if coalesced && !model.is_empty() { nontrivial = true; }
                if let Some(v) = check_pop(fr, &mut model, step) { return (Some(v), nontrivial); }
            }
            Op::Clear => { fr.clear(); model.clear(); }
        }
        if fr.len() != model.len() {
            return (Some(("len_mismatch", format!("{name}: after operation #{step} len() = {} but {} sub-problem(s) are poppable", fr.len(), model.len()))), nontrivial);
        }
        if fr.is_empty() != model.is_empty() {
            return (Some(("len_mismatch", format!("{name}: after operation #{step} is_empty() = {} but {} sub-problem(s) are poppable", fr.is_empty(), model.len()))), nontrivial);
        }
    }
    // drain: nothing lost, nothing invented
    let mut step = h.len();
    while !model.is_empty() {
        if coalesced { nontrivial = true; }
        if let Some(v) = check_pop(fr, &mut model, step) { return (Some(v), nontrivial); }
        step += 1;
    }
    if let Some(n) = fr.pop() {
        return (Some(("pop_invented", format!("{name}: the drained queue still pops (state {}, depth {}, value {})", n.state, n.depth, n.value))), nontrivial);
    }
    (None, nontrivial)
}

fn alphabet() -> Vec<Op> {
    let mut a = vec![Op::Pop, Op::Clear];
    for s in 0..2u8 { for d in 0..2u8 { for v in 1..=2i8 { for ub in 2..=3i8 { a.push(Op::Push { s, d, v, ub }); } } } }
    a
}

fn judge(h: &[Op], a: &mut Acc, exhaustive: bool) {
    tick();
    for (nodup, share) in [(false, false), (true, false), (false, true), (true, true)] {
        let (viol, nt) = match std::panic::catch_unwind(|| run_history(h, nodup, share)) {
            Ok(r) => r,
            Err(_) => {
                let p = crate::runner::take_panics();
                let lib = p.iter().find(|x| x.in_library());
                match lib {
                    Some(p) => (Some(("panic", format!("{}: panic inside the library: {} at {}:{}", if nodup { "NoDupFringe" } else { "SimpleFringe" }, p.msg, p.file, p.line))), false),
                    None => { a.harness_error(format!("panic outside the library while running a history: {:?}", p.first().map(|x| (&x.msg, &x.file, x.line))), hist_json(h)); (None, false) }
                }
            }
        };
        a.evaluations += 1;
        if nt {
            if exhaustive { a.nt_extra += 1; } else { a.nontrivial.insert(hash_of(&(h, nodup, share))); }
            if a.samples.len() < 3 && h.len() >= 5 { a.sample(J::obj().set("fringe", J::s("NoDupFringe")).set("history", hist_json(h))); }
        }
        if let Some((clause, msg)) = viol {
            a.violation(PROP, clause, msg, J::obj().set("fringe", J::s(if nodup { "nodup" } else { "simple" })).set("equal_states_share_one_arc", J::Bool(share)),
                J::obj().set("kind", J::s("history")).set("fringe", J::s(if nodup { "nodup" } else { "simple" })).set("equal_states_share_one_arc", J::Bool(share)).set("history", hist_json(h)).set("history_raw", J::Arr(h.iter().map(raw).collect())));
        }
    }
}
fn raw(op: &Op) -> J {
    match op { Op::Push { s, d, v, ub } => J::ints(&[*s as i64, *d as i64, *v as i64, *ub as i64]), Op::Pop => J::s("pop"), Op::Clear => J::s("clear") }
}
fn unraw(j: &J) -> Op {
    match j {
        J::Str(s) if s == "pop" => Op::Pop,
        J::Str(_) => Op::Clear,
        J::Arr(a) => Op::Push { s: a[0].as_i64().unwrap_or(0) as u8, d: a[1].as_i64().unwrap_or(0) as u8, v: a[2].as_i64().unwrap_or(0) as i8, ub: a[3].as_i64().unwrap_or(0) as i8 },
        _ => Op::Pop,
    }
}

fn solver_level<F: Fam>(spec: &CaseSpec) {
    let inst = Arc::new(F::generate(spec.gen_seed, spec.size, spec.variant));
    let mut results = vec![];
    for fr in [FringeKind::Simple, FringeKind::NoDup] {
        let mut cfg = spec.cfg.clone();
        cfg.fringe = fr;
        let out = run_solver(&inst, &cfg);
        results.push((cfg, out));
    }
    with_acc(|a| {
        a.evaluations += 2;
        a.bump("solver_level_pairs", 1);
        let (cfg_nd, out_nd) = &results[1];
        let (_, out_s) = &results[0];
        let spec_nd = CaseSpec { cfg: cfg_nd.clone(), ..spec.clone() };
        // pooled + long arcs livelock (finding H2) is not this property's business
        if out_nd.livelock.is_some() || out_s.livelock.is_some() { a.inconclusive("non-termination of the pooled diagram (decided by C15/C01)", light_case(&spec_nd, inst.as_ref())); return; }
        let case = || case_json(&spec_nd, inst.as_ref()).set("kind", J::s("solver")).set("observed", out_nd.json());
        if let Some(p) = out_nd.lib_panic() {
            if out_s.lib_panic().is_none() {
                a.violation(PROP, "solver_nodup_panic", format!("solver with NoDupFringe panics ({} at {}:{}) while the same solver with SimpleFringe does not", p.msg, p.file, p.line), J::obj().set("fringe", J::s("nodup")), case());
            }
            return;
        }
        if let (Some((e1, v1)), Some((_e2, v2))) = (out_nd.completion, out_s.completion) {
            let opt = inst.optimum();
            if v2 == opt && (v1 != opt || !e1) {
                a.violation(PROP, "solver_nodup_wrong", format!("solver with NoDupFringe reports {v1:?} (exact={e1}) while SimpleFringe reports the optimum {opt:?}"), J::obj().set("fringe", J::s("nodup")), case());
            }
            if !inst.depth_in_state() && out_nd.fringe.pushes > out_nd.fringe.pops { a.nontrivial.insert(hash_of(&(inst.ihash(), format!("{:?}", cfg_nd.json())))); }
        }
    });
}

pub fn run(shard: &Shard) -> i32 {
    set_current(PROP, false);
    if let Some(path) = &shard.replay {
        let text = std::fs::read_to_string(path).unwrap_or_default();
        let j = match J::parse(&text) { Ok(j) => j, Err(e) => { eprintln!("bad replay file: {e}"); return 2; } };
        let cj = j.get("case").cloned().unwrap_or(j);
        if cj.gets("kind") == Some("history") {
            let h: Vec<Op> = cj.get("history_raw").and_then(|a| a.as_arr()).map(|a| a.iter().map(unraw).collect()).unwrap_or_default();
            with_acc(|a| judge(&h, a, false));
        } else {
            let spec = CaseSpec::from_json(&cj);
            with_family!(spec.family, solver_level, &spec);
        }
        return 0;
    }
    if std::env::var("VH_SMALL").is_ok() {
        // Miri add-on: a few random histories (recycle bin, position table, in-place updates) under the interpreter
        let mut rng = crate::util::Rng::derive(shard.seed, &[0x11]);
        for _ in 0..12 {
            let h = random_history(&mut rng, 300);
            with_acc(|a| { judge(&h, a, false); a.bump("random_histories", 1); a.bump("random_history_operations", h.len() as u64); });
        }
        return 0;
    }
    // (a) exhaustive: all histories up to length 5 (quick) / 6 (thorough); sharded by the first two operations
    let alpha = alphabet();
    let maxlen = if shard.quick() { 5 } else { 6 };
    let k = alpha.len();
    let mut complete = true;
    let mut prefix_idx = 0u64;
    'ex: for a0 in 0..(if shard.only_case.is_some() { 0 } else { k }) {
        for a1 in 0..k {
            prefix_idx += 1;
            if prefix_idx % shard.n != shard.idx { continue; }
            if shard.start.elapsed() > shard.budget * 2 / 3 { complete = false; break 'ex; }
            let mut h = vec![alpha[a0], alpha[a1]];
            with_acc(|a| {
                if a1 == 0 { judge(&h[..1], a, true); }
                judge(&h, a, true);
                enumerate(&alpha, &mut h, maxlen, a);
            });
        }
    }
    with_acc(|a| { a.exhaustive = Some(complete); a.notes.push(format!("exhaustive part: all histories up to length {maxlen} over {k} operations, complete = {complete}")); });
    // (b) random long histories + (c) solver level
    case_loop(shard, u64::MAX, |_i, rng| {
        if rng.chance(2, 3) {
            let len = if rng.chance(1, 4) { 3000 } else { 200 };
            let h = random_history(rng, len);
            with_acc(|a| { judge(&h, a, false); a.bump("random_histories", 1); a.bump("random_history_operations", h.len() as u64); if len >= 1000 { a.bump("random_histories_of_3000_operations", 1); } });
        } else {
            let p = Profile { depth_free_bias: true, long_arcs_only: rng.chance(1, 3), small: rng.chance(1, 3), medium_share: 1, ..Default::default() };
            let spec = random_spec(rng, &p);
            with_family!(spec.family, solver_level, &spec);
        }
        true
    });
    0
}
fn enumerate(alpha: &[Op], h: &mut Vec<Op>, maxlen: usize, a: &mut Acc) {
    if h.len() >= maxlen { return; }
    for op in alpha {
        h.push(*op);
        judge(h, a, true);
        enumerate(alpha, h, maxlen, a);
        h.pop();
    }
}
pub fn random_history(rng: &mut Rng, len: usize) -> Vec<Op> {
    let mut h = Vec::with_capacity(len);
    let mut push_bias = 3;
    // small universe (15 keys: many coalescing pushes) or large one (up to 768 keys: heaps of hundreds of entries, deep
    // bubble-up / bubble-down paths, a recycle bin that grows and shrinks)
    let (ns, nv, nub) = if len >= 1000 && rng.chance(2, 3) { (*rng.pick(&[40u64, 120, 256]), 60i64, 90i64) } else { (5, 6, 8) };
    let phase = if ns > 5 { 200 } else { 50 };
    for i in 0..len {
        if i % phase == 0 { push_bias = 1 + rng.below(4); }
        let r = rng.below(5);
        if r < push_bias {
            h.push(Op::Push { s: rng.below(ns) as u8, d: rng.below(3) as u8, v: rng.range(0, nv) as i8, ub: rng.range(0, nub) as i8 });
        } else if rng.chance(1, 60) { h.push(Op::Clear); } else { h.push(Op::Pop); }
    }
    h
}
