//! C05 -- bounds stay sound when the search is cut off at any point (fault enumeration: every poll index)
//! C19 -- sequential anytime behaviour is monotone in the cutoff point
use std::collections::BTreeSet;
use std::sync::Arc;

use super::common::*;
use super::par::*;
use crate::campaign::*;
use crate::models::Fam;
use crate::runner::*;
use crate::util::{hash_of, J};
use crate::with_family;

/// C05's predicate on one interrupted (or not) run
pub fn bounds_violation<F: Fam>(inst: &F, out: &Outcome) -> Vec<(&'static str, String)> {
    let mut v = vec![];
    let (is_exact, value) = match out.completion { Some(c) => c, None => return v };
    let opt = inst.optimum();
    match opt {
        Some(o) => {
            if out.lb > o { v.push(("lower_bound_above_optimum", format!("best_lower_bound() = {} > optimum {o}", out.lb))); }
            if out.ub < o { v.push(("upper_bound_below_optimum", format!("best_upper_bound() = {} < optimum {o}", out.ub))); }
        }
        None => if out.lb != isize::MIN { v.push(("lower_bound_on_infeasible", format!("best_lower_bound() = {} but the problem is infeasible", out.lb))); },
    }
    if let Some(sol) = &out.best_solution {
        match inst.replay(sol, None) {
            Err(m) => v.push(("solution_infeasible", format!("reported solution [{}] is infeasible: {m}", crate::util::fmt_path(sol)))),
            Ok(r) => if r.value != out.lb { v.push(("solution_value_not_lower_bound", format!("reported solution [{}] has value {} but best_lower_bound() = {}", crate::util::fmt_path(sol), r.value, out.lb))); },
        }
    }
    if is_exact && value != opt { v.push(("exact_but_not_optimal", format!("is_exact = true with value {value:?} but the optimum is {opt:?}"))); }
    v
}

/// longest uninterrupted run (in cutoff polls) whose cutoff indices are enumerated / sampled
static REF_CAP: std::sync::atomic::AtomicU64 = std::sync::atomic::AtomicU64::new(150_000);
/// runs of at most that many polls have every cutoff index enumerated, longer ones ~90 sampled indices (tried 100 for C05 quick so
/// that more distinct instances are reached; kept at 300: lowering it did not reach more witnesses)
static FULL_UP_TO: std::sync::atomic::AtomicU64 = std::sync::atomic::AtomicU64::new(300);
fn seq_enumeration<F: Fam>(spec: &CaseSpec, prop: &'static str) {
    let inst = Arc::new(F::generate(spec.gen_seed, spec.size, spec.variant));
    let mut cfg = spec.cfg.clone();
    cfg.par = None;
    // the reference run is capped (the enumeration re-runs the search ~90 times up to a sampled poll index): longer searches
    // are left to the campaigns that run them once (C01, C03, C09)
    let cap = REF_CAP.load(std::sync::atomic::Ordering::Relaxed);
    cfg.cutoff_k = cap + 1;
    let reference = run_solver(&inst, &cfg);
    cfg.cutoff_k = 0;
    if reference.livelock.is_some() {
        with_acc(|a| { a.evaluations += 1; a.inconclusive("non-termination of the pooled diagram on a long-arc model (decided by C15 / C01)", light_case(spec, inst.as_ref())); });
        return;
    }
    if reference.cutoff_fired {
        with_acc(|a| { a.evaluations += 1; a.bump("instances_skipped_because_the_reference_run_exceeds_the_poll_cap", 1); });
        return;
    }
    if reference.lib_panic().is_some() || reference.completion.is_none() {
        with_acc(|a| { a.evaluations += 1; a.bump("reference_run_crashed_not_this_property", 1); });
        return;
    }
    let kmax = reference.polls;
    let opt = inst.optimum();
    let mut prev: Option<(isize, isize)> = None;
    let mut lbs = BTreeSet::new();
    let mut ubs = BTreeSet::new();
    let mut nontrivial_cuts = 0u64;
    // every poll index when the run is short; for long runs (medium sized instances) a sample of ~90 indices: windows of
    // consecutive indices + the last two (by transitivity a violation of the pairwise clauses between two sampled indices
    // implies one between two consecutive indices)
    let full = FULL_UP_TO.load(std::sync::atomic::Ordering::Relaxed);
    let ks: Vec<u64> = if kmax <= full { (1..=kmax + 1).collect() } else {
        let mut rng = crate::util::Rng::derive(spec.gen_seed, &[0xC5, kmax]);
        let mut v: Vec<u64> = (0..30).flat_map(|_| { let s = 1 + rng.below(kmax - 2); vec![s, s + 1, s + 2] }).collect();
        v.extend_from_slice(&[1, 2, kmax, kmax + 1]);
        v.sort_unstable();
        v.dedup();
        v
    };
    if kmax > full { with_acc(|a| a.bump("instances_with_sampled_poll_indices", 1)); }
    let mut prev_k = 0u64;
    for k in ks {
        tick();
        let mut c = cfg.clone();
        c.cutoff_k = k;
        // C05, a third of the indices: maximize() is called a second time on the interrupted solver
        c.second_call = prop == "C05" && (k + spec.gen_seed) % 3 == 0;
        let out = run_solver(&inst, &c);
        let kspec = CaseSpec { cfg: c, ..spec.clone() };
        with_acc(|a| {
            a.evaluations += 1;
            a.bump("cut_off_runs", 1);
            if out.first_call.is_some() { a.bump("cut_off_runs_with_a_second_call_to_maximize", 1); }
            let case = || case_json(&kspec, inst.as_ref()).set("observed", out.json()).set("polls_of_uninterrupted_run", J::i(kmax));
            if let Some(p) = out.lib_panic() {
                a.violation(prop, "panic", format!("panic inside the library when the cutoff fires at poll {k}: {} at {}:{}", p.msg, p.file, p.line), J::obj().set("panic_file", J::s(p.file.clone())).set("panic_line", J::i(p.line)), case());
                return;
            }
            if out.completion.is_none() { a.harness_error("maximize() did not return".into(), case()); return; }
            if prop == "C05" {
                for (clause, msg) in bounds_violation(inst.as_ref(), &out) {
                    a.violation(prop, clause, format!("cutoff at poll {k} of {kmax}: {msg}"), J::obj().set("solver", J::s("sequential")).set("k", J::i(k)), case());
                }
                if out.cutoff_fired && (Some(out.lb) != opt || Some(out.ub) != opt) { nontrivial_cuts += 1; a.nontrivial.insert(hash_of(&(inst.ihash(), format!("{:?}", kspec.cfg.json())))); }
            } else {
                // C19
                if let Some((plb, pub_)) = prev {
                    if out.lb < plb { a.violation(prop, "lower_bound_decreased", format!("cutoff at poll {k}: best_lower_bound() = {} but it was {plb} when the cutoff fired at poll {}", out.lb, prev_k), J::obj().set("k", J::i(k)), case()); }
                    if out.ub > pub_ { a.violation(prop, "upper_bound_increased", format!("cutoff at poll {k}: best_upper_bound() = {} but it was {pub_} when the cutoff fired at poll {}", out.ub, prev_k), J::obj().set("k", J::i(k)), case()); }
                }
                if k == kmax + 1 {
                    let (e, v) = out.completion.unwrap();
                    if out.cutoff_fired || !e || v != opt || (opt.is_some() && (Some(out.lb) != opt || Some(out.ub) != opt)) {
                        a.violation(prop, "no_exact_tail", format!("with the cutoff beyond the last poll ({k}) the run should be exact with both bounds equal to the optimum {opt:?}; got is_exact={e}, value {v:?}, lb {}, ub {}", out.lb, out.ub), J::obj().set("k", J::i(k)), case());
                    }
                }
            }
        });
        prev = Some((out.lb, out.ub));
        prev_k = k;
        if out.lb != isize::MIN { lbs.insert(out.lb); }
        if out.ub != isize::MAX { ubs.insert(out.ub); }
    }
    with_acc(|a| {
        a.bump("instances_enumerated", 1);
        a.bump("poll_indices_enumerated", if kmax <= full { kmax + 1 } else { 90 });
        if prop == "C19" && ubs.len() >= 3 && lbs.len() >= 2 {
            a.nontrivial.insert(hash_of(&(inst.ihash(), format!("{:?}", cfg.json()))));
            if a.samples.len() < a.max_samples { a.sample(light_case(spec, inst.as_ref()).set("polls", J::i(kmax)).set("distinct_lower_bounds", J::ints(&lbs.iter().copied().collect::<Vec<_>>())).set("distinct_upper_bounds", J::ints(&ubs.iter().copied().collect::<Vec<_>>()))); }
        }
        if prop == "C05" && nontrivial_cuts > 0 && a.samples.len() < 3 { a.sample(light_case(spec, inst.as_ref()).set("polls", J::i(kmax)).set("cuts_with_unfinished_answer", J::i(nontrivial_cuts)).set("optimum", opt.map_or(J::Null, J::isz))); }
    });
}

fn judge_par_c05<F: Fam>(inst: &Arc<F>, spec: &CaseSpec, out: &Outcome) {
    const PROP: &str = "C05";
    with_acc(|a| {
        a.evaluations += 1;
        note_schedule(a, out);
        if out.first_call.is_some() { a.bump("parallel_cut_off_runs_with_a_second_call_to_maximize", 1); }
        if out.livelock.is_some() { a.inconclusive("non-termination of the pooled diagram on a long-arc model (decided by C04 / C15)", light_case(spec, inst.as_ref())); return; }
        if out.sched.as_ref().map_or(false, |r| r.budget_exhausted) { a.inconclusive("scheduler step budget exhausted", light_case(spec, inst.as_ref())); return; }
        let case = || case_json(spec, inst.as_ref()).set("observed", out.json());
        if let Some(p) = out.lib_panic() {
            a.violation(PROP, "panic", format!("panic inside the library: {} at {}:{}", p.msg, p.file, p.line), J::obj().set("panic_file", J::s(p.file.clone())), case());
            return;
        }
        for (clause, msg) in bounds_violation(inst.as_ref(), out) {
            a.violation(PROP, clause, format!("parallel, cutoff at poll {}: {msg}", spec.cfg.cutoff_k), J::obj().set("solver", J::s("parallel")).set("k", J::i(spec.cfg.cutoff_k)), case());
        }
        let opt = inst.optimum();
        if out.cutoff_fired && (Some(out.lb) != opt || Some(out.ub) != opt) {
            let sig = out.sched.as_ref().map_or(0, |r| r.signature());
            a.nontrivial.insert(hash_of(&(inst.ihash(), format!("{:?}", spec.cfg.json()), sig)));
            if out.sched.as_ref().map_or(false, |r| r.workers_with_nodes() >= 2) { a.bump("parallel_cuts_with_2plus_workers_having_processed_nodes", 1); }
        }
    });
}
fn par_enumeration<F: Fam>(spec: &CaseSpec, plan: &Plan, seed: u64, quick: bool) {
    let inst = Arc::new(F::generate(spec.gen_seed, spec.size, spec.variant));
    // reference: number of polls of the default schedule
    let mut p0 = plan.clone();
    p0.cutoff_k = 0; p0.dfs_cap = 1; p0.n_random = 0; p0.n_pct = 0;
    let mut polls = 0;
    explore(&inst, spec, &p0, seed, &mut |_i, _s, o| { polls = o.polls; });
    if polls == 0 { return; }
    let step = if quick { (polls / 12).max(1) } else { 1 };
    let mut k = 1 + seed % step;
    while k <= polls + 2 {
        let mut p = plan.clone();
        p.cutoff_k = k;
        p.poll_yields = true;
        // every other cutoff index: maximize() is called a second time on the interrupted solver (the bounds and the
        // exactness flag of that call are what is judged)
        let mut sp = spec.clone();
        sp.cfg.second_call = (k ^ seed) % 2 == 0;
        explore(&inst, &sp, &p, seed ^ k, &mut |i, s, o| judge_par_c05(i, s, o));
        k += step;
    }
}

pub fn run_c05(shard: &Shard) -> i32 {
    const PROP: &str = "C05";
    set_current(PROP, false);
    if let Some(path) = &shard.replay { return replay(path, PROP); }
    REF_CAP.store(if shard.quick() { 4000 } else { 20_000 }, std::sync::atomic::Ordering::Relaxed);
    FULL_UP_TO.store(300, std::sync::atomic::Ordering::Relaxed);
    case_loop(shard, u64::MAX, |_i, rng| {
        if shard.idx % 2 == 0 {
            // (re-convergent instances: the same state at the same depth sits in the cut-sets of several open sub-problems, with
            // different bounds - what a duplicate-free fringe has to coalesce correctly)
            let p = Profile { with_dominance: true, small: rng.chance(1, 6), depth_free_bias: rng.chance(1, 3), reconvergent: rng.chance(1, 3), medium_share: if shard.quick() { 0 } else { 1 }, large_share: if shard.idx % 16 == 14 { 8 } else { 0 }, ..Default::default() };
            let mut spec = random_spec(rng, &p);
            // two fifths of the table instances in the deceptive style (rewards 0..19, a large terminal reward behind one base
            // state, loose or no rough bound): the incumbent stays sub-optimal for most of the search, so that an unsound
            // upper bound at the cutoff has room to fall below the optimum
            if spec.family == 'T' && rng.chance(2, 5) {
                use crate::models::tmodel::*;
                spec.size = (spec.size & !(F_DEPTH_FREE | F_IRRELEVANCE | F_ABSORBING | F_CONSERVATIVE)) | F_DECEPTIVE;
                spec.variant.rub = if rng.chance(2, 3) { crate::models::RubKind::None } else { crate::models::RubKind::Slack((rng.next() % 1000) | 1) };
            }
            with_family!(spec.family, seq_enumeration, &spec, PROP);
        } else {
            let spec = tiny_spec(rng, false);
            let mut plan = super::c03::random_plan(rng, true);
            plan.n0 = 1 + rng.usize(3);
            plan.dfs_cap = if shard.quick() { 6 } else { 25 };
            plan.n_random = if shard.quick() { 3 } else { 8 };
            plan.n_pct = 1;
            let seed = rng.next();
            with_family!(spec.family, par_enumeration, &spec, &plan, seed, shard.quick());
        }
        true
    });
    0
}
pub fn run_c19(shard: &Shard) -> i32 {
    const PROP: &str = "C19";
    set_current(PROP, false);
    if let Some(path) = &shard.replay { return replay(path, PROP); }
    REF_CAP.store(if shard.quick() { 4000 } else { 20_000 }, std::sync::atomic::Ordering::Relaxed);
    case_loop(shard, u64::MAX, |_i, rng| {
        let p = Profile { with_dominance: true, small: rng.chance(1, 4), depth_free_bias: rng.chance(1, 3), medium_share: if shard.quick() { 0 } else { 1 }, large_share: if shard.idx % 16 == 14 { 8 } else { 0 }, ..Default::default() };
        let spec = random_spec(rng, &p);
        with_family!(spec.family, seq_enumeration, &spec, PROP);
        true
    });
    0
}

fn replay(path: &std::path::Path, prop: &'static str) -> i32 {
    let text = std::fs::read_to_string(path).unwrap_or_default();
    let j = match J::parse(&text) { Ok(j) => j, Err(e) => { eprintln!("bad replay file: {e}"); return 2; } };
    let cj = j.get("case").cloned().unwrap_or(j);
    let spec = CaseSpec::from_json(&cj);
    if spec.cfg.par.is_some() {
        with_family!(spec.family, replay_par, &spec);
    } else {
        // the whole enumeration of that instance / configuration is re-run (C19 compares consecutive indices)
        with_family!(spec.family, seq_enumeration, &spec, prop);
    }
    0
}
fn replay_par<F: Fam>(spec: &CaseSpec) {
    let inst = Arc::new(F::generate(spec.gen_seed, spec.size, spec.variant));
    let out = run_solver(&inst, &spec.cfg);
    judge_par_c05(&inst, spec, &out);
}
