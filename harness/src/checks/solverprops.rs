//! C02 (solution consistency), C09 (cache), C14 (warm start), C15 (long arcs): solver level campaigns
use std::sync::Arc;

use ddo::*;

use super::common::*;
use super::par::*;
use crate::campaign::*;
use crate::models::Fam;
use crate::runner::*;
use crate::sched::Strategy;
use crate::util::{hash_of, Rng, J};
use crate::with_family;

fn sched_mode(rng: &mut Rng, cache_yields: bool) -> ParMode {
    let strategy = if rng.chance(1, 2) { Strategy::Random(rng.next()) } else { Strategy::Pct { seed: rng.next(), d: 1 + rng.usize(3), est_len: 80 } };
    ParMode::Sched { strategy, budget: 200_000, poll_yields: rng.chance(2, 3), cache_yields }
}
/// after a scheduled run: make the case replayable (store the grants)
pub fn with_grants(spec: &CaseSpec, out: &Outcome) -> CaseSpec {
    let mut s = spec.clone();
    if let (Some(p), Some(r)) = (&mut s.cfg.par, &out.sched) {
        if let ParMode::Sched { strategy, .. } = &mut p.mode { *strategy = Strategy::Replay(r.grants()); }
    }
    s
}
fn skip_run<F: Fam>(a: &mut Acc, spec: &CaseSpec, inst: &F, out: &Outcome) -> bool {
    if out.livelock.is_some() { a.inconclusive("non-termination of the pooled diagram on a long-arc model (decided by C15 / C01 / C04)", light_case(spec, inst)); return true; }
    if out.sched.as_ref().map_or(false, |r| r.budget_exhausted) { a.inconclusive("scheduler step budget exhausted", light_case(spec, inst)); return true; }
    false
}

// ---------------------------------------------------------------------------
// C02
// ---------------------------------------------------------------------------
fn c02_case<F: Fam>(spec: &CaseSpec) {
    const PROP: &str = "C02";
    let inst = Arc::new(F::generate(spec.gen_seed, spec.size, spec.variant));
    with_acc(|a| a.current_case = Some(light_case(spec, inst.as_ref())));
    let out = run_solver(&inst, &spec.cfg);
    let spec = &with_grants(spec, &out);
    with_acc(|a| {
        a.current_case = None;
        a.evaluations += 1;
        note_schedule(a, &out);
        a.absorb(&out, PROP, &light_case(spec, inst.as_ref()));
        a.bump(if spec.cfg.par.is_some() { "parallel_runs" } else { "sequential_runs" }, 1);
        if out.cutoff_fired { a.bump("runs_cut_off", 1); }
        if skip_run(a, spec, inst.as_ref(), &out) { return; }
        let case = || case_json(spec, inst.as_ref()).set("observed", out.json());
        if out.lib_panic().is_some() || out.completion.is_none() { a.bump("runs_crashed_not_this_property", 1); return; }
        for (clause, msg) in check_solution(inst.as_ref(), &out) {
            a.violation(PROP, clause, msg, J::obj().set("parallel", J::Bool(spec.cfg.par.is_some())).set("cut_off", J::Bool(out.cutoff_fired)), case());
        }
        let upd = out.counter("incumbent_improvements_seen_by_compilations");
        let rel = out.counter("incumbent_improvements_after_a_relaxed_compilation");
        a.bump("incumbent_improvements_seen", upd);
        a.bump("incumbent_improvements_after_relaxed", rel);
        if out.best_value.is_some() && upd >= 2 && rel >= 1 {
            a.nontrivial.insert(hash_of(&(inst.ihash(), format!("{:?}", spec.cfg.json()), out.sched.as_ref().map_or(0, |r| r.signature()))));
            if a.samples.len() < a.max_samples { let j = light_case(spec, inst.as_ref()).set("observed", out.json()).set("incumbent_improvements", J::i(upd)); a.sample(j); }
        }
    });
}
pub fn run_c02(shard: &Shard) -> i32 {
    const PROP: &str = "C02";
    set_current(PROP, false);
    if let Some(path) = &shard.replay { return replay(path, PROP); }
    case_loop(shard, u64::MAX, |_i, rng| {
        let kind = if shard.idx % 4 == 3 { 3 } else { rng.below(3) };
        let p = Profile { with_dominance: true, small: rng.chance(1, 3), depth_free_bias: rng.chance(1, 3), medium_share: 1, ..Default::default() };
        let mut spec = if kind == 2 { tiny_spec(rng, false) } else { random_spec(rng, &p) };
        spec.cfg.monitors = 0;
        match kind {
            0 => {}
            1 => { spec.cfg.cutoff_k = 1 + rng.below(40); }
            2 => {
                let cy = rng.chance(1, 3);
                spec.cfg.par = Some(Par { n0: 1 + rng.usize(3), n1: None, mode: sched_mode(rng, cy) });
                if rng.chance(1, 2) { spec.cfg.cutoff_k = 1 + rng.below(40); }
            }
            _ => {
                spec.cfg.par = Some(Par { n0: *rng.pick(&[2usize, 3, 4, 8]), n1: None, mode: if rng.chance(1, 2) && !spec.is_big() { ParMode::Delay(rng.next() >> 1) } else { ParMode::Free } });
                if rng.chance(1, 3) { spec.cfg.cutoff_k = 1 + rng.below(60); }
            }
        }
        with_family!(spec.family, c02_case, &spec);
        true
    });
    0
}

// ---------------------------------------------------------------------------
// C09
// ---------------------------------------------------------------------------
fn c09_case<F: Fam>(spec: &CaseSpec) {
    const PROP: &str = "C09";
    let inst = Arc::new(F::generate(spec.gen_seed, spec.size, spec.variant));
    let mut c0 = spec.cfg.clone();
    c0.cache = false;
    let mut c1 = spec.cfg.clone();
    c1.cache = true;
    with_acc(|a| a.current_case = Some(light_case(spec, inst.as_ref())));
    let o1 = run_solver(&inst, &c1);
    // large deceptive instances: the non-caching search is orders of magnitude longer than the caching one; three times
    // out of four it is stopped at its first cutoff poll and the caching solver is judged against the oracle alone
    let oracle_only = spec.family == 'T' && spec.size & crate::models::tmodel::F_DECEPTIVE != 0 && spec.gen_seed % 4 != 0;
    if oracle_only { c0.cutoff_k = 1; }
    let o0 = run_solver(&inst, &c0);
    let spec1 = with_grants(&CaseSpec { cfg: c1, ..spec.clone() }, &o1);
    with_acc(|a| {
        a.current_case = None;
        a.evaluations += 1;
        note_schedule(a, &o1);
        a.bump("pairs", 1);
        a.bump("cache_threshold_reads", o1.cache.reads);
        a.bump("cache_threshold_reads_returning_a_value", o1.cache.hits);
        a.bump("cache_must_explore_refusals", o1.cache.must_explore_refusals);
        a.bump("cache_thresholds_stored_explored", o1.cache.writes_explored);
        a.bump("cache_thresholds_stored_unexplored", o1.cache.writes_unexplored);
        a.bump("cache_layer_clears", o1.cache.layer_clears);
        a.bump("expansions_with_cache", o1.counter("expansions"));
        a.bump("expansions_without_cache", o0.counter("expansions"));
        if skip_run(a, &spec1, inst.as_ref(), &o1) { return; }
        let case = || case_json(&spec1, inst.as_ref()).set("observed", o1.json()).set("observed_without_cache", o0.json());
        if let Some(p) = o1.lib_panic() {
            if o0.lib_panic().is_none() { a.violation(PROP, "panic_with_cache_only", format!("panic with the cache only: {} at {}:{}", p.msg, p.file, p.line), J::obj(), case()); }
            return;
        }
        let (e1, v1) = match o1.completion { Some(c) => c, None => return };
        // the caching run itself ran out of logical steps: no verdict
        if o1.cutoff_fired { a.inconclusive("step budget exhausted by the caching solver", light_case(&spec1, inst.as_ref())); return; }
        let opt = inst.optimum();
        let uncached_ok = o0.livelock.is_none() && o0.completion.map_or(false, |(e, v)| e && v == opt);
        // the non-caching run of a long search may exhaust the logical step budget (it explores much more): it then says
        // nothing, and the value of the caching solver is judged against the oracle alone
        let uncached_cut = o0.cutoff_fired && o0.lib_panic().is_none();
        if oracle_only { a.bump("pairs_judged_against_the_oracle_alone_(non_caching_run_skipped)", 1); }
        else if uncached_cut { a.bump("pairs_where_the_non_caching_run_exhausted_the_step_budget", 1); }
        if v1 != opt || !e1 {
            if uncached_ok || o0.livelock.is_some() || uncached_cut {
                a.violation(PROP, "value_changed_by_cache", format!("caching solver reports {v1:?} (is_exact={e1}); non-caching solver reports {:?}{}; optimum {opt:?}", o0.completion.map(|c| c.1), if uncached_cut { " (step budget exhausted)" } else { "" }), J::obj().set("parallel", J::Bool(spec.cfg.par.is_some())), case());
            } else { a.bump("both_wrong_not_this_property", 1); }
        } else if let Some(sol) = &o1.best_solution {
            match inst.replay(sol, None) {
                Err(m) => a.violation(PROP, "solution_infeasible_with_cache", format!("solution of the caching solver is infeasible: {m}"), J::obj(), case()),
                Ok(r) => if Some(r.value) != v1 { a.violation(PROP, "solution_value_with_cache", format!("solution of the caching solver replays to {} but {v1:?} is reported", r.value), J::obj(), case()); },
            }
        }
        let skipped = o1.cache.must_explore_refusals > 0 || (o1.cache.hits > 0 && o1.counter("expansions") < o0.counter("expansions"));
        if skipped {
            a.bump("pairs_where_the_cache_avoided_work", 1);
            a.nontrivial.insert(hash_of(&(inst.ihash(), format!("{:?}{:?}", spec1.cfg.json(), spec.variant), o1.sched.as_ref().map_or(0, |r| r.signature()))));
            if a.samples.len() < a.max_samples { let j = light_case(&spec1, inst.as_ref()).set("expansions_with_cache", J::i(o1.counter("expansions"))).set("expansions_without_cache", J::i(o0.counter("expansions"))).set("must_explore_refusals", J::i(o1.cache.must_explore_refusals)).set("threshold_hits", J::i(o1.cache.hits)); a.sample(j); }
        }
    });
}
pub fn run_c09(shard: &Shard) -> i32 {
    const PROP: &str = "C09";
    set_current(PROP, false);
    if let Some(path) = &shard.replay { return replay(path, PROP); }
    case_loop(shard, u64::MAX, |_i, rng| {
        let kind = if shard.idx % 4 == 3 { 2 } else if shard.idx % 4 == 2 { 1 } else { 0 };
        let p = Profile { with_dominance: true, reconvergent: rng.chance(3, 4), small: rng.chance(1, 2), depth_free_bias: rng.chance(1, 2), medium_share: 2, large_share: if shard.idx % 4 == 3 { 10 } else if shard.idx % 8 == 4 { 8 } else { 0 }, deceptive_share: if shard.idx % 8 == 7 { 12 } else if shard.idx % 8 == 4 { 10 } else { 0 }, ..Default::default() };
        let mut spec = if kind == 1 { let mut s = tiny_spec(rng, false); if rng.chance(1, 2) { s.size |= crate::models::tmodel::F_RECONVERGENT; } s } else { random_spec(rng, &p) };
        spec.cfg.monitors = 0;
        match kind {
            0 => {}
            1 => { spec.cfg.par = Some(Par { n0: 2 + rng.usize(2), n1: None, mode: sched_mode(rng, true) }); }
            _ => { spec.cfg.par = Some(Par { n0: *rng.pick(&[2usize, 3, 4, 8]), n1: None, mode: if rng.chance(2, 3) && !spec.is_big() { ParMode::Delay(rng.next() >> 1) } else { ParMode::Free } }); }
        }
        with_family!(spec.family, c09_case, &spec);
        true
    });
    0
}

// ---------------------------------------------------------------------------
// C14
// ---------------------------------------------------------------------------
/// all complete feasible decision sequences of a tiny instance (capped)
pub fn feasible_solutions<F: Fam>(inst: &F, cap: usize) -> Vec<(isize, Vec<Decision>)> {
    fn rec<F: Fam>(inst: &F, st: &F::S, depth: usize, value: isize, path: &mut Vec<Decision>, out: &mut Vec<(isize, Vec<Decision>)>, cap: usize) {
        if out.len() >= cap { return; }
        if inst.hstar(st, depth).is_none() { return; }
        let layer = [st.clone()];
        match inst.next_variable(depth, &mut layer.iter()) {
            None => out.push((value, path.clone())),
            Some(var) => {
                let mut decs = vec![];
                inst.for_each_in_domain(var, st, &mut |d: Decision| decs.push(d));
                for d in decs {
                    let ns = inst.transition(st, d);
                    let c = inst.transition_cost(st, &ns, d);
                    path.push(d);
                    rec(inst, &ns, depth + 1, value + c, path, out, cap);
                    path.pop();
                }
            }
        }
    }
    let mut out = vec![];
    rec(inst, &inst.initial_state(), 0, inst.initial_value(), &mut vec![], &mut out, cap);
    out
}
fn c14_case<F: Fam>(spec: &CaseSpec, seed: u64) {
    const PROP: &str = "C14";
    let inst = Arc::new(F::generate(spec.gen_seed, spec.size, spec.variant));
    let opt = match inst.optimum() { Some(o) => o, None => return };
    let sols = feasible_solutions(inst.as_ref(), 4000);
    if sols.is_empty() { return; }
    let mut rng = Rng::derive(seed, &[14]);
    // the witnesses: every distinct feasible value (capped), always including opt and the largest value below it
    let mut values: Vec<isize> = sols.iter().map(|s| s.0).collect();
    values.sort_unstable();
    values.dedup();
    let mut picks: Vec<isize> = vec![];
    if values.contains(&opt) { picks.push(opt); }
    if let Some(v) = values.iter().rev().find(|v| **v < opt) { picks.push(*v); }
    for _ in 0..2 { let v = *rng.pick(&values); if !picks.contains(&v) { picks.push(v); } }
    for p in picks {
        let sol = sols.iter().find(|s| s.0 == p).unwrap().1.clone();
        let mut cfg = spec.cfg.clone();
        cfg.primal = Some((p, sol.clone()));
        let pspec = CaseSpec { cfg, ..spec.clone() };
        with_acc(|a| a.current_case = Some(light_case(&pspec, inst.as_ref())));
        let out = run_solver(&inst, &pspec.cfg);
        let pspec = with_grants(&pspec, &out);
        with_acc(|a| {
            a.current_case = None;
            a.evaluations += 1;
            note_schedule(a, &out);
            a.bump(if p == opt { "runs_with_optimal_primal" } else { "runs_with_suboptimal_primal" }, 1);
            if skip_run(a, &pspec, inst.as_ref(), &out) { return; }
            let case = || case_json(&pspec, inst.as_ref()).set("observed", out.json()).set("primal", J::isz(p));
            if let Some(pn) = out.lib_panic() { a.violation(PROP, "panic", format!("panic inside the library: {} at {}:{}", pn.msg, pn.file, pn.line), J::obj(), case()); return; }
            let (e, v) = match out.completion { Some(c) => c, None => return };
            if !e { a.violation(PROP, "not_exact", format!("with primal {p} the uninterrupted run reports is_exact = false"), J::obj(), case()); }
            if v != Some(opt) { a.violation(PROP, "missed_better_solution", format!("with a feasible primal of value {p} the solver reports {v:?} but the optimum is {opt}"), J::obj().set("primal_is_optimal", J::Bool(p == opt)), case()); }
            else if let Some(s) = &out.best_solution {
                match inst.replay(s, None) {
                    Err(m) => a.violation(PROP, "solution_infeasible", format!("returned solution is infeasible: {m}"), J::obj(), case()),
                    Ok(r) => if r.value != opt { a.violation(PROP, "solution_value", format!("returned solution replays to {} but {opt} is reported", r.value), J::obj(), case()); },
                }
            } else { a.violation(PROP, "solution_missing", "value reported but no solution".to_string(), J::obj(), case()); }
            if p < opt || out.fringe.pops >= 1 {
                a.nontrivial.insert(hash_of(&(inst.ihash(), format!("{:?}{:?}", pspec.cfg.json(), spec.variant))));
                if a.samples.len() < a.max_samples && p < opt { a.sample(light_case(&pspec, inst.as_ref()).set("optimum", J::isz(opt)).set("observed", out.json())); }
            }
        });
    }
    // set_primal replaces the incumbent only when the new value is strictly greater (both solver types, public API)
    if sols.len() >= 2 {
        let (p1, s1) = sols[rng.usize(sols.len())].clone();
        let (p2, s2) = sols[rng.usize(sols.len())].clone();
        let relax = inst.mk_relax();
        let rank = inst.mk_rank();
        let width = FixedWidth(2);
        let dom = EmptyDominanceChecker::default();
        let cutoff = NoCutoff;
        for parallel in [false, true] {
            let mut fringe = SimpleFringe::new(MaxUB::new(&rank));
            let (bv, bs) = if parallel {
                let mut s = ParNoCachingSolverLel::custom(inst.as_ref(), &relax, &rank, &width, &dom, &cutoff, &mut fringe, 2);
                s.set_primal(p1, s1.clone());
                s.set_primal(p2, s2.clone());
                (s.best_value(), s.best_solution())
            } else {
                let mut s = SeqNoCachingSolverLel::custom(inst.as_ref(), &relax, &rank, &width, &dom, &cutoff, &mut fringe);
                s.set_primal(p1, s1.clone());
                s.set_primal(p2, s2.clone());
                (s.best_value(), s.best_solution())
            };
            with_acc(|a| {
                a.evaluations += 1;
                a.bump("set_primal_pairs", 1);
                let (wv, ws) = if p2 > p1 { (p2, &s2) } else { (p1, &s1) };
                if bv != Some(wv) || bs.as_ref() != Some(ws) {
                    a.violation(PROP, "set_primal_replacement_rule", format!("set_primal({p1}, A) then set_primal({p2}, B): incumbent is ({bv:?}, {}) but should be ({wv}, {})", if bs.as_ref() == Some(&s1) { "A" } else if bs.as_ref() == Some(&s2) { "B" } else { "?" }, if p2 > p1 { "B" } else { "A" }),
                        J::obj().set("parallel", J::Bool(parallel)), light_case(spec, inst.as_ref()).set("p1", J::isz(p1)).set("p2", J::isz(p2)));
                }
                if p1 == p2 && s1 != s2 { a.nontrivial.insert(hash_of(&(inst.ihash(), p1, parallel, "tie"))); }
            });
        }
    }
}
pub fn run_c14(shard: &Shard) -> i32 {
    const PROP: &str = "C14";
    set_current(PROP, false);
    if let Some(path) = &shard.replay { return replay(path, PROP); }
    case_loop(shard, u64::MAX, |_i, rng| {
        let p = Profile { with_dominance: true, depth_free_bias: rng.chance(1, 3), ..Default::default() };
        let mut spec = if shard.idx % 4 == 3 { tiny_spec(rng, false) } else { random_spec(rng, &p) };
        spec.cfg.monitors = 0;
        if shard.idx % 4 == 3 { spec.cfg.par = Some(Par { n0: 1 + rng.usize(3), n1: None, mode: sched_mode(rng, false) }); }
        let seed = rng.next();
        with_family!(spec.family, c14_case, &spec, seed);
        true
    });
    0
}

// ---------------------------------------------------------------------------
// C15
// ---------------------------------------------------------------------------
fn c15_case<F: Fam>(spec: &CaseSpec) {
    const PROP: &str = "C15";
    let inst = Arc::new(F::generate(spec.gen_seed, spec.size, spec.variant));
    let mut cp = spec.cfg.clone();
    cp.dd = DdKind::Pooled;
    cp.monitors = crate::monitor::bit(12); // only to get the is_impacted_by counters
    let mut cm = spec.cfg.clone();
    cm.dd = if spec.gen_seed % 2 == 0 { DdKind::Lel } else { DdKind::Fc };
    cm.par = None;
    let pspec = CaseSpec { cfg: cp, ..spec.clone() };
    with_acc(|a| a.current_case = Some(light_case(&pspec, inst.as_ref())));
    let op = run_solver(&inst, &pspec.cfg);
    let om = run_solver(&inst, &cm);
    let pspec = with_grants(&pspec, &op);
    with_acc(|a| {
        a.current_case = None;
        a.evaluations += 1;
        note_schedule(a, &op);
        a.bump("pairs", 1);
        a.bump("not_impacted_answers", op.counter("not_impacted_answers"));
        let case = || case_json(&pspec, inst.as_ref()).set("observed", op.json()).set("observed_with_plain_diagram", om.json());
        if let Some(p) = op.lib_panic() { a.violation(PROP, "panic", format!("panic inside the library: {} at {}:{}", p.msg, p.file, p.line), J::obj(), case()); return; }
        if let Some(w) = &op.livelock {
            a.violation(PROP, "non_termination", format!("solver with the pooled diagram does not terminate: {w}"), J::obj().set("self_requeues", J::i(op.fringe.self_requeues)), case());
            return;
        }
        if op.sched.as_ref().map_or(false, |r| r.budget_exhausted) || op.cutoff_fired { a.inconclusive("step budget exhausted without non-termination witness", light_case(&pspec, inst.as_ref())); return; }
        let (e, v) = match op.completion { Some(c) => c, None => return };
        let opt = inst.optimum();
        let plain = om.completion.map(|c| c.1);
        if v != opt || !e || plain != Some(opt) {
            if plain == Some(opt) {
                a.violation(PROP, "pooled_value_differs", format!("solver with the pooled diagram reports {v:?} (is_exact={e}); with the plain diagram {plain:?}; optimum {opt:?}"), J::obj().set("parallel", J::Bool(spec.cfg.par.is_some())), case());
            } else { a.bump("plain_diagram_wrong_not_this_property", 1); }
        } else if let Some(sol) = &op.best_solution {
            match inst.replay(sol, None) {
                Err(m) => a.violation(PROP, "pooled_solution_infeasible", format!("default-completed solution of the pooled solver is infeasible: {m}"), J::obj(), case()),
                Ok(r) => if Some(r.value) != v { a.violation(PROP, "pooled_solution_value", format!("solution of the pooled solver replays to {} but {v:?} is reported", r.value), J::obj(), case()); },
            }
            if sol.len() < inst.nvars() { a.bump("solutions_with_skipped_variables", 1); }
        }
        if op.counter("not_impacted_answers") > 0 {
            a.nontrivial.insert(hash_of(&(inst.ihash(), format!("{:?}{:?}", pspec.cfg.json(), spec.variant))));
            if a.samples.len() < a.max_samples { a.sample(light_case(&pspec, inst.as_ref()).set("not_impacted_answers", J::i(op.counter("not_impacted_answers"))).set("observed", op.json())); }
        }
    });
}
pub fn run_c15(shard: &Shard) -> i32 {
    const PROP: &str = "C15";
    set_current(PROP, false);
    if let Some(path) = &shard.replay { return replay(path, PROP); }
    case_loop(shard, u64::MAX, |_i, rng| {
        let p = Profile { long_arcs_only: true, small: rng.chance(1, 3), max_width: 3, medium_share: 2, ..Default::default() };
        let mut spec = random_spec(rng, &p);
        match shard.idx % 4 {
            2 => { spec.cfg.par = Some(Par { n0: 1 + rng.usize(3), n1: None, mode: sched_mode(rng, false) }); }
            3 => { spec.cfg.par = Some(Par { n0: *rng.pick(&[2usize, 3, 4, 8]), n1: None, mode: if rng.chance(2, 3) && !spec.is_big() { ParMode::Delay(rng.next() >> 1) } else { ParMode::Free } }); }
            _ => {}
        }
        with_family!(spec.family, c15_case, &spec);
        true
    });
    0
}

fn replay(path: &std::path::Path, prop: &'static str) -> i32 {
    let text = std::fs::read_to_string(path).unwrap_or_default();
    let j = match J::parse(&text) { Ok(j) => j, Err(e) => { eprintln!("bad replay file: {e}"); return 2; } };
    let cj = j.get("case").cloned().unwrap_or(j);
    let mut spec = CaseSpec::from_json(&cj);
    match prop {
        "C02" => { with_family!(spec.family, c02_case, &spec); }
        "C09" => { with_family!(spec.family, c09_case, &spec); }
        "C14" => { let _ = spec.cfg.primal.take(); with_family!(spec.family, c14_case, &spec, 1); }
        _ => { with_family!(spec.family, c15_case, &spec); }
    }
    0
}
