//! C10 -- dominance pruning is sound; the checker implements Pareto-front semantics
use std::cmp::Ordering;
use std::sync::Arc;

use ddo::*;

use super::common::*;
use crate::campaign::*;
use crate::models::{DomKind, Fam};
use crate::runner::*;
use crate::util::{hash_of, Rng, J};
use crate::with_family;

const PROP: &str = "C10";

/// test state: key (None = no key), two coordinates
#[derive(Clone, Copy, Debug, PartialEq, Eq, Hash)]
pub struct DState { pub key: i8, pub c0: i8, pub c1: i8 }
pub struct TestDom { pub use_value: bool }
impl Dominance for TestDom {
    type State = DState;
    type Key = i8;
    fn get_key(&self, s: Arc<DState>) -> Option<i8> { if s.key < 0 { None } else { Some(s.key) } }
    fn nb_dimensions(&self, _s: &DState) -> usize { 2 }
    fn get_coordinate(&self, s: &DState, i: usize) -> isize { if i == 0 { s.c0 as isize } else { s.c1 as isize } }
    fn use_value(&self) -> bool { self.use_value }
}
#[derive(Clone, Copy, Debug, PartialEq, Eq, Hash)]
pub struct Query { pub s: DState, pub depth: u8, pub value: i8 }

/// reference: does (e, ve) dominate (q, vq) ?  (at least as good everywhere, strictly better somewhere)
pub fn dominates(e: &DState, ve: isize, q: &DState, vq: isize, use_value: bool) -> bool {
    if e.key != q.key || e.key < 0 { return false; }
    let ge = e.c0 >= q.c0 && e.c1 >= q.c1 && (!use_value || ve >= vq);
    let strict = e.c0 > q.c0 || e.c1 > q.c1 || (use_value && ve > vq);
    ge && strict
}
pub fn ref_dominated(all: &[(DState, u8, isize)], q: &DState, depth: u8, v: isize, use_value: bool) -> bool {
    all.iter().any(|(e, d, ve)| *d == depth && dominates(e, *ve, q, v, use_value))
}

pub fn q_json(q: &Query) -> J { J::s(format!("query(key={},coords=({},{}),depth={},value={})", q.s.key, q.s.c0, q.s.c1, q.depth, q.value)) }
fn q_raw(q: &Query) -> J { J::ints(&[q.s.key as i64, q.s.c0 as i64, q.s.c1 as i64, q.depth as i64, q.value as i64]) }
fn q_unraw(j: &J) -> Query {
    let a: Vec<i64> = j.as_arr().map(|a| a.iter().filter_map(|x| x.as_i64()).collect()).unwrap_or_default();
    Query { s: DState { key: a[0] as i8, c0: a[1] as i8, c1: a[2] as i8 }, depth: a[3] as u8, value: a[4] as i8 }
}

/// runs one query sequence on the real checker; returns (violation, nontrivial)
pub fn run_sequence(seq: &[Query], use_value: bool) -> (Option<(&'static str, String)>, bool) {
    let chk = SimpleDominanceChecker::new(TestDom { use_value }, 3);
    let mut all: Vec<(DState, u8, isize)> = vec![];
    let mut n_dom = 0;
    let mut evicted = false;
    for (i, q) in seq.iter().enumerate() {
        let v = q.value as isize;
        let res = chk.is_dominated_or_insert(Arc::new(q.s), q.depth as usize, v);
        let expect = ref_dominated(&all, &q.s, q.depth, v, use_value);
        if res.dominated != expect {
            return (Some((if expect { "missed_domination" } else { "false_domination" }, format!("query #{i} {:?}: checker answers dominated={} but the reference (all states presented before) says {}", q, res.dominated, expect))), false);
        }
        if res.dominated {
            n_dom += 1;
            match res.threshold {
                None => return (Some(("threshold_missing", format!("query #{i} {:?}: dominated verdict without threshold", q))), false),
                Some(t) => {
                    if t < v { return (Some(("threshold_below_value", format!("query #{i} {:?}: threshold {t} is below the presented value {v}", q))), false); }
                    if !ref_dominated(&all, &q.s, q.depth, t, use_value) {
                        return (Some(("threshold_unsound", format!("query #{i} {:?}: threshold {t} returned, but the same state presented with value {t} would not be dominated", q))), false);
                    }
                }
            }
        } else {
            if res.threshold.is_some() { return (Some(("threshold_on_insert", format!("query #{i} {:?}: not dominated but a threshold {:?} is returned", q, res.threshold))), false); }
            if all.iter().any(|(e, d, ve)| *d == q.depth && dominates(&q.s, v, e, *ve, use_value)) { evicted = true; }
        }
        if q.s.key >= 0 { all.push((q.s, q.depth, v)); }
    }
    (None, n_dom > 0 && evicted)
}
/// size of the largest set of pairwise incomparable queries is not measured; the number of distinct coordinates is a proxy
pub fn large_universe(seq: &[Query]) -> bool { seq.iter().any(|q| q.s.c0 > 2 || q.s.c1 > 1) }

fn universe(depths: u8) -> Vec<Query> {
    let mut u = vec![];
    for key in 0..2i8 { for c0 in 0..3i8 { for c1 in 0..2i8 { for value in 0..3i8 { for depth in 0..depths {
        u.push(Query { s: DState { key, c0, c1 }, depth, value });
    } } } } }
    u.push(Query { s: DState { key: -1, c0: 1, c1: 1 }, depth: 0, value: 1 });
    u
}

fn judge(seq: &[Query], use_value: bool, a: &mut Acc, exhaustive: bool) {
    tick();
    let (viol, nt) = match std::panic::catch_unwind(|| run_sequence(seq, use_value)) {
        Ok(r) => r,
        Err(_) => {
            let p = crate::runner::take_panics();
            match p.iter().find(|x| x.in_library()) {
                Some(p) => (Some(("panic", format!("panic inside the library: {} at {}:{}", p.msg, p.file, p.line))), false),
                None => { a.harness_error(format!("panic outside the library while running a query sequence: {:?}", p.first().map(|x| (&x.msg, &x.file, x.line))), J::Null); (None, false) }
            }
        }
    };
    a.evaluations += 1;
    if nt {
        if exhaustive { a.nt_extra += 1; } else { a.nontrivial.insert(hash_of(&(seq, use_value))); }
        if a.samples.len() < 3 && seq.len() >= 4 { a.sample(J::obj().set("use_value", J::Bool(use_value)).set("queries", J::Arr(seq.iter().map(q_json).collect()))); }
    }
    if let Some((clause, msg)) = viol {
        a.violation(PROP, clause, msg, J::obj().set("use_value", J::Bool(use_value)),
            J::obj().set("kind", J::s("sequence")).set("use_value", J::Bool(use_value)).set("queries", J::Arr(seq.iter().map(q_json).collect())).set("queries_raw", J::Arr(seq.iter().map(q_raw).collect())));
    }
}

fn comparator_consistency(a: &mut Acc) {
    for use_value in [false, true] {
        let dom = TestDom { use_value };
        let chk = SimpleDominanceChecker::new(TestDom { use_value }, 1);
        let u = universe(1);
        for x in &u { for y in &u {
            a.evaluations += 1;
            let pc = dom.partial_cmp(&x.s, x.value as isize, &y.s, y.value as isize);
            let c = chk.cmp(&x.s, x.value as isize, &y.s, y.value as isize);
            // reference for partial_cmp (keys are not looked at by the comparators)
            let (xs, ys) = (DState { key: 0, ..x.s }, DState { key: 0, ..y.s });
            let x_dom_y = dominates(&xs, x.value as isize, &ys, y.value as isize, use_value);
            let y_dom_x = dominates(&ys, y.value as isize, &xs, x.value as isize, use_value);
            let got = pc.as_ref().map(|r| r.ordering);
            let want_greater = x_dom_y;
            let want_less = y_dom_x;
            if (got == Some(Ordering::Greater)) != want_greater || (got == Some(Ordering::Less)) != want_less {
                a.violation(PROP, "partial_cmp_wrong", format!("partial_cmp({:?},{} ; {:?},{}) = {:?} (use_value={use_value}) but reference: first dominates second = {x_dom_y}, second dominates first = {y_dom_x}", x.s, x.value, y.s, y.value, got), J::obj().set("use_value", J::Bool(use_value)), J::obj().set("kind", J::s("comparator")));
            }
            if x_dom_y && c != Ordering::Greater {
                a.violation(PROP, "cmp_does_not_rank_dominating_first", format!("({:?},{}) dominates ({:?},{}) (use_value={use_value}) but the sorting comparator returns {:?}", x.s, x.value, y.s, y.value, c), J::obj().set("use_value", J::Bool(use_value)), J::obj().set("kind", J::s("comparator")));
            }
            if x_dom_y { a.nt_extra += 1; }
        } }
    }
}

fn solver_level<F: Fam>(spec: &CaseSpec) {
    // the same configuration with and without the checker
    let with = Arc::new(F::generate(spec.gen_seed, spec.size, spec.variant));
    let mut v0 = spec.variant;
    v0.dom = DomKind::None;
    let without = Arc::new(F::generate(spec.gen_seed, spec.size, v0));
    if with.variant().dom == DomKind::None { return; }
    let mut cfg = spec.cfg.clone();
    cfg.monitors = 0;
    let o1 = run_solver(&with, &cfg);
    // large instances: the run without checker is not needed (the oracle gives the optimum) and may be very long: it is stopped
    // at its first cutoff poll, which the verdict below treats like a run that exhausted the step budget
    let mut cfg0 = cfg.clone();
    if with.nvars() >= 20 { cfg0.cutoff_k = 1; }
    let o0 = run_solver(&without, &cfg0);
    let spec = &super::solverprops::with_grants(&CaseSpec { cfg: cfg.clone(), ..spec.clone() }, &o1);
    with_acc(|a| {
        super::par::note_schedule(a, &o1);
        a.evaluations += 2;
        a.bump("solver_level_pairs", 1);
        if o1.livelock.is_some() || o0.livelock.is_some() { a.inconclusive("non-termination of the pooled diagram (decided by C15/C01)", light_case(spec, with.as_ref())); return; }
        let case = || case_json(spec, with.as_ref()).set("kind", J::s("solver")).set("observed", o1.json()).set("observed_without_checker", o0.json());
        if let Some(p) = o1.lib_panic() {
            if o0.lib_panic().is_none() { a.violation(PROP, "solver_panic_with_dominance", format!("panic with the dominance checker only: {} at {}:{}", p.msg, p.file, p.line), J::obj(), case()); }
            return;
        }
        if let (Some((e1, v1)), Some((_e0, v0))) = (o1.completion, o0.completion) {
            let opt = with.optimum();
            // long searches: a run that exhausts the logical step budget says nothing (with the checker: no verdict; without
            // it: the run with the checker is judged against the oracle alone)
            if o1.cutoff_fired { a.inconclusive("step budget exhausted by the run with the dominance checker", light_case(spec, with.as_ref())); return; }
            if v1 != opt || !e1 {
                if v0 == opt || o0.cutoff_fired {
                    let class = if with.nvars() >= 20 { "large" } else if with.nvars() >= 12 { "medium" } else { "small" };
                    a.violation(PROP, "solver_value_changed_by_dominance", format!("with the dominance checker the solver reports {v1:?} (exact={e1}); without it {v0:?}; optimum {opt:?}"), J::obj().set("par", J::Bool(cfg.par.is_some())).set("instance_class", J::s(class)).set("dominance_queried_by_restricted_compilations", J::Bool(o1.dom_queries_restricted > 0)), case());
                } else { a.bump("both_wrong_not_this_property", 1); }
            }
            // non trivial: at least one node was discarded by dominance
            a.bump("nodes_discarded_by_dominance", o1.dom_pruned);
            a.bump("dominance_queries_issued_by_restricted_compilations", o1.dom_queries_restricted);
            a.bump("dominance_queries_in_solver_runs", o1.dom_queries);
            if o1.dom_pruned > 0 {
                a.nontrivial.insert(hash_of(&(with.ihash(), format!("{:?}{:?}", cfg.json(), spec.variant))));
            }
        }
    });
}

pub fn run(shard: &Shard) -> i32 {
    set_current(PROP, false);
    if let Some(path) = &shard.replay {
        let text = std::fs::read_to_string(path).unwrap_or_default();
        let j = match J::parse(&text) { Ok(j) => j, Err(e) => { eprintln!("bad replay file: {e}"); return 2; } };
        let cj = j.get("case").cloned().unwrap_or(j);
        match cj.gets("kind") {
            Some("sequence") => {
                let seq: Vec<Query> = cj.get("queries_raw").and_then(|a| a.as_arr()).map(|a| a.iter().map(q_unraw).collect()).unwrap_or_default();
                with_acc(|a| judge(&seq, cj.getb("use_value").unwrap_or(true), a, false));
            }
            Some("comparator") => with_acc(comparator_consistency),
            _ => { let spec = CaseSpec::from_json(&cj); with_family!(spec.family, solver_level, &spec); }
        }
        return 0;
    }
    if shard.idx == 0 && shard.only_case.is_none() { with_acc(comparator_consistency); }
    // (a) exhaustive query sequences (one depth) up to length 3 (quick) / 4 (thorough), sharded by the first query
    let u = universe(1);
    let maxlen = if shard.quick() { 3 } else { 4 };
    let mut complete = true;
    for (i0, q0) in u.iter().enumerate() {
        if i0 as u64 % shard.n != shard.idx || shard.only_case.is_some() { continue; }
        if shard.start.elapsed() > shard.budget / 2 { complete = false; break; }
        for use_value in [false, true] {
            let mut seq = vec![*q0];
            with_acc(|a| { judge(&seq, use_value, a, true); enumerate(&u, &mut seq, maxlen, use_value, a); });
        }
    }
    with_acc(|a| { a.exhaustive = Some(complete); a.notes.push(format!("exhaustive part: all query sequences up to length {maxlen} over {} queries x use_value on/off, complete = {complete}", u.len())); });
    // (b) random long sequences (two depths) and (c) solver level
    let u2 = universe(2);
    case_loop(shard, u64::MAX, |_i, rng| {
        if rng.chance(1, 2) {
            let len = 5 + rng.usize(196);
            let _ = &u2;
            let seq: Vec<Query> = random_queries(rng, len, 2);
            let uv = rng.chance(1, 2);
            with_acc(|a| { judge(&seq, uv, a, false); a.bump("random_sequences", 1); if large_universe(&seq) { a.bump("random_sequences_over_large_coordinates", 1); } });
        } else {
            // (large deceptive instances: the only place where finding H13 has been seen)
            let p = Profile { only_all_impacted: true, with_dominance: true, small: rng.chance(1, 2), weak_t_dominance: true, medium_share: 1, large_share: 1, deceptive_share: if shard.idx % 4 == 3 { 6 } else { 1 }, ..Default::default() };
            let mut spec = random_spec(rng, &p);
            if spec.variant.dom == DomKind::None { spec.variant.dom = if rng.chance(2, 3) { DomKind::Exact } else { DomKind::Weak }; }
            // half of the cases on the corner that exposed H7: re-convergent table instances (many equally good states),
            // the tie-breaking dominance rule, very narrow diagrams (restricted diagrams truncate almost everything)
            if rng.chance(1, 2) {
                use crate::models::tmodel::*;
                spec.family = 'T';
                spec.size = (if rng.chance(1, 2) { SZ_TINY } else { SZ_SMALL }) | F_RECONVERGENT | if rng.chance(1, 2) { F_NO_BONUS } else { 0 } | if rng.chance(1, 3) { F_NO_DEAD_END } else { 0 };
                spec.variant.dom = DomKind::Weak;
                spec.cfg.width = crate::runner::WidthKind::Fixed(if rng.chance(2, 3) { 1 } else { 2 });
                if rng.chance(1, 2) { spec.variant.rank = crate::models::RankKind::Random(rng.next() % 1000); }
            }
            if rng.chance(1, 3) {
                // parallel: free running, or under the controlled scheduler with the dominance queries as yield points
                let mode = if rng.chance(1, 2) { ParMode::Free } else { ParMode::Sched { strategy: crate::sched::Strategy::Random(rng.next()), budget: 200_000, poll_yields: true, cache_yields: true } };
                spec.cfg.par = Some(Par { n0: 1 + rng.usize(3), n1: None, mode });
            }
            with_family!(spec.family, solver_level, &spec);
        }
        true
    });
    0
}
fn enumerate(u: &[Query], seq: &mut Vec<Query>, maxlen: usize, use_value: bool, a: &mut Acc) {
    if seq.len() >= maxlen { return; }
    for q in u {
        seq.push(*q);
        judge(seq, use_value, a, true);
        enumerate(u, seq, maxlen, use_value, a);
        seq.pop();
    }
}
pub fn random_queries(rng: &mut Rng, len: usize, depths: u8) -> Vec<Query> {
    // small universe (many equal / comparable states) or large coordinates (Pareto fronts of tens of incomparable entries)
    if rng.chance(1, 3) {
        let m = *rng.pick(&[8i64, 16, 40]);
        return (0..len).map(|_| Query { s: DState { key: rng.below(2) as i8, c0: rng.range(0, m) as i8, c1: rng.range(0, m) as i8 }, depth: rng.below(depths as u64) as u8, value: rng.range(0, 6) as i8 }).collect();
    }
    let u = universe(depths);
    (0..len).map(|_| *rng.pick(&u)).collect()
}
