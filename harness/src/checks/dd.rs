//! Direct decision-diagram driver shared by C06, C07, C08, C12, C13 and C20:
//! the harness enumerates reachable sub-problem roots of an instance (compile,
//! drain the cut-set, recurse) and compiles every root with several widths,
//! incumbents and compilation types on a fresh object and on a reused object
//! whose history contains other roots, other types and interrupted compilations.
use std::collections::HashSet;
use std::fmt::Debug;
use std::sync::atomic::AtomicBool;
use std::sync::Arc;

use ddo::*;

use super::common::*;
use crate::campaign::*;
use crate::models::{Fam, Oracle, Variant};
use crate::monitor::*;
use crate::runner::{take_panics, DdKind};
use crate::util::{hash_of, path_json, Rng, J};
use crate::with_family;

pub trait VizDD: DecisionDiagram {
    fn viz(&self, cfg: &VizConfig) -> String;
}
impl<T: Debug + Eq + std::hash::Hash + Clone> VizDD for Mdd<T, { LAST_EXACT_LAYER }> {
    fn viz(&self, cfg: &VizConfig) -> String { self.as_graphviz(cfg) }
}
impl<T: Debug + Eq + std::hash::Hash + Clone> VizDD for Mdd<T, { FRONTIER }> {
    fn viz(&self, cfg: &VizConfig) -> String { self.as_graphviz(cfg) }
}
impl<T: Debug + Eq + std::hash::Hash + Clone> VizDD for Pooled<T> {
    fn viz(&self, cfg: &VizConfig) -> String { self.as_graphviz(cfg) }
}

pub struct DdCase {
    pub family: char,
    pub gen_seed: u64,
    pub size: u32,
    pub variant: Variant,
    pub dd: DdKind,
    pub drive_seed: u64,
}
impl DdCase {
    pub fn json(&self) -> J {
        J::obj().set("family", J::s(self.family.to_string())).set("gen_seed", J::Int(self.gen_seed as i64)).set("size", J::i(self.size))
            .set("rub", J::s(format!("{:?}", self.variant.rub))).set("rank", J::s(format!("{:?}", self.variant.rank))).set("dom", J::s("None"))
            .set("cfg", J::obj().set("dd", J::s(self.dd.name()))).set("drive_seed", J::Int(self.drive_seed as i64))
    }
    pub fn from_json(j: &J) -> DdCase {
        let spec = CaseSpec::from_json(j);
        DdCase { family: spec.family, gen_seed: spec.gen_seed, size: spec.size, variant: spec.variant, dd: spec.cfg.dd, drive_seed: j.geti("drive_seed").unwrap_or(0) as u64 }
    }
}

fn sub_json<S: Debug>(sp: &SubProblem<S>) -> J {
    J::obj().set("state", J::s(format!("{:?}", sp.state))).set("value", J::isz(sp.value)).set("depth", J::i(sp.depth)).set("ub", J::isz(sp.ub)).set("path", path_json(&sp.path))
}

/// follows feasible decisions (first one whose successor can still be completed) down to a complete assignment
pub fn leaf_subproblem<F: Fam>(inst: &F) -> Option<SubProblem<F::S>> {
    inst.optimum()?;
    let mut st = inst.initial_state();
    let mut value = inst.initial_value();
    let mut path = vec![];
    let mut depth = 0usize;
    loop {
        let layer = [st.clone()];
        let var = match inst.next_variable(depth, &mut layer.iter()) { None => break, Some(v) => v };
        let mut decs = vec![];
        inst.for_each_in_domain(var, &st, &mut |d: Decision| decs.push(d));
        let mut taken = None;
        for d in decs {
            let ns = inst.transition(&st, d);
            if inst.hstar(&ns, depth + 1).is_some() { taken = Some((d, ns)); break; }
        }
        let (d, ns) = taken?;
        value += inst.transition_cost(&st, &ns, d);
        path.push(d);
        st = ns;
        depth += 1;
        if depth > 64 { return None; }
    }
    Some(SubProblem { state: Arc::new(st), value, path, ub: value, depth })
}

pub type VizHook<S> = dyn Fn(&MonCtx<S>, &dyn Fn(&VizConfig) -> String, &CompilationInput<S>, &[Ev<S>], &J) -> u64;

/// drives one instance with one diagram type; returns the number of compilations
#[allow(clippy::too_many_arguments)]
pub fn drive<F: Fam, D>(case: &DdCase, prop: &'static str, props: u32, viz: Option<&VizHook<F::S>>) -> u64
where D: VizDD<State = F::S> + Default {
    let inst = Arc::new(F::generate(case.gen_seed, case.size, case.variant));
    let mut rng = Rng::derive(case.drive_seed, &[0xDD]);
    let relax = inst.mk_relax();
    let rank = inst.mk_rank();
    let cache = EmptyCache::<F::S>::new();
    let dom = EmptyDominanceChecker::<F::S>::default();
    let mut ctx = MonCtx::<F::S>::new(inst.clone(), inst.clone(), props, true, inst.ihash(), case.dd.name());
    ctx.keep_log = viz.is_some();
    let ctx = Arc::new(ctx);
    set_ctx(Some(ctx.clone()));
    let _ = take_panics();
    let never = CountingCutoff::new(0, Arc::new(AtomicBool::new(false)));
    let root = SubProblem { state: Arc::new(inst.initial_state()), value: inst.initial_value(), path: vec![], ub: isize::MAX, depth: 0 };
    // 1. reachable roots
    let mut roots = vec![root];
    let mut seen: HashSet<u64> = HashSet::new();
    seen.insert(hash_of(&(roots[0].state.as_ref(), 0usize, roots[0].value)));
    let max_roots = 8;
    let mut compiles = 0u64;
    let mut viz_calls = 0u32;
    let mut i = 0;
    let light = || case.json().set("long_arcs", J::Bool(!inst.all_impacted())).set("depth_in_state", J::Bool(inst.depth_in_state()));
    let mut crashed = false;
    while i < roots.len() && roots.len() < max_roots {
        let r = roots[i].clone();
        i += 1;
        let mut dd = MonDD::<D>::default();
        let input = CompilationInput { comp_type: CompilationType::Relaxed, problem: inst.as_ref(), relaxation: &relax, ranking: &rank, cutoff: &never,
            max_width: 1 + rng.usize(3), residual: &r, best_lb: isize::MIN, cache: &cache, dominance: &dom };
        let res = std::panic::catch_unwind(std::panic::AssertUnwindSafe(|| {
            let ok = dd.compile(&input).is_ok();
            let mut kids = vec![];
            if ok { dd.drain_cutset(|sp| kids.push(sp)); }
            kids
        }));
        compiles += 1;
        match res {
            Ok(kids) => for k in kids {
                // a cut-set node that denotes the root itself (finding H2) must not be explored again
                if k.depth > r.depth && roots.len() < max_roots && seen.insert(hash_of(&(k.state.as_ref(), k.depth, k.value))) { roots.push(k); }
            },
            Err(_) => { crashed = true; break; }
        }
    }
    // a sub-problem with nothing left to decide (a complete feasible assignment): a legal input of `compile`, whose diagram is
    // the single root node (never produced by the cut-sets above, which only hold nodes with children)
    if !crashed && rng.chance(1, 3) { if let Some(leaf) = leaf_subproblem(inst.as_ref()) { ctx.bump("leaf_subproblems_compiled", 1); roots.push(leaf); } }
    // 2. every root x type x width x incumbent x {fresh, reused}
    let mut reused = MonDD::<D>::default();
    let gopt = inst.optimum();
    'outer: for r in roots.iter() {
        if crashed { break; }
        let opt_r = inst.hstar(r.state.as_ref(), r.depth).map(|h| h + r.value);
        let mut incumbents = vec![isize::MIN];
        if let Some(o) = opt_r { incumbents.extend_from_slice(&[o - 1 - rng.range(0, 2) as isize, o, o + 1 + rng.range(0, 2) as isize]); } else { incumbents.push(0); }
        if let Some(g) = gopt { if rng.chance(1, 2) { incumbents.push(g - 1); } }
        for ct in [CompilationType::Relaxed, CompilationType::Restricted, CompilationType::Exact] {
            let big = inst.nvars() >= 12;
            let widths: Vec<usize> = if big { vec![1, 2, 3, 6, 9, 14] } else { vec![1, 2, 3, 4] };
            for w in widths {
                if (w == 4 || w == 14) && rng.chance(1, 2) { continue; }
                for l in incumbents.iter().copied() {
                    if rng.chance(1, 3) { continue; }
                    for reuse in [false, true] {
                        // one compilation in six runs under a cutoff that fires at a pseudo-random poll: either it is reported
                        // (Err: nothing to check) or the compilation claims to be complete (Ok) and every clause applies to it -
                        // a diagram silently truncated by the cutoff would show up as a wrong bound / a false exactness claim
                        let cutk = if rng.chance(1, 6) { 1 + rng.below((4 * inst.nvars() as u64).max(6)) } else { 0 };
                        let cut = CountingCutoff::new(cutk, Arc::new(AtomicBool::new(false)));
                        if cutk > 0 { ctx.bump("compilations_under_a_counting_cutoff", 1); }
                        let input = CompilationInput { comp_type: ct, problem: inst.as_ref(), relaxation: &relax, ranking: &rank, cutoff: if cutk > 0 { &cut } else { &never },
                            max_width: w, residual: r, best_lb: l, cache: &cache, dominance: &dom };
                        let mut fresh = MonDD::<D>::default();
                        if reuse && rng.chance(1, 3) {
                            // history: an interrupted compilation of another root / type
                            let other = rng.pick(&roots).clone();
                            let cut = CountingCutoff::new(1 + rng.below(4), Arc::new(AtomicBool::new(false)));
                            let inp2 = CompilationInput { comp_type: *rng.pick(&[CompilationType::Relaxed, CompilationType::Restricted, CompilationType::Exact]), problem: inst.as_ref(), relaxation: &relax, ranking: &rank, cutoff: &cut,
                                max_width: 1 + rng.usize(3), residual: &other, best_lb: isize::MIN, cache: &cache, dominance: &dom };
                            let r2 = std::panic::catch_unwind(std::panic::AssertUnwindSafe(|| reused.compile(&inp2).is_err()));
                            compiles += 1;
                            match r2 { Ok(true) => ctx.bump("history_interrupted_compilations", 1), Ok(false) => {}, Err(_) => { crashed = true; break 'outer; } }
                        }
                        let dd: &mut MonDD<D> = if reuse { &mut reused } else { &mut fresh };
                        let res = std::panic::catch_unwind(std::panic::AssertUnwindSafe(|| {
                            let ok = dd.compile(&input).is_ok();
                            if ok && ct == CompilationType::Relaxed && !dd.is_exact() { dd.drain_cutset(|_| {}); }
                            ok
                        }));
                        compiles += 1;
                        // progress mark of the hang watchdog: a library call has returned
                        crate::campaign::tick();
                        if reuse { ctx.bump("compilations_on_reused_object", 1); }
                        match res {
                            Err(_) => { crashed = true; break 'outer; }
                            Ok(ok) => {
                                if ok && cutk > 0 { ctx.bump("compilations_completed_under_a_counting_cutoff", 1); }
                                if ok {
                                    // medium / large instances: hundreds of compilations of big diagrams, each rendered under 16 configurations: the first 40 are enough
                                    if viz.is_some() && inst.nvars() >= 12 { viz_calls += 1; }
                                    if let Some(v) = viz.filter(|_| viz_calls <= 40) {
                                        let log = dd.last_log.take().unwrap_or_default();
                                        let inner = &dd.inner;
                                        let f = |c: &VizConfig| inner.viz(c);
                                        let cj = light().set("compile", J::obj().set("comp_type", J::s(format!("{ct:?}"))).set("max_width", J::i(w)).set("incumbent", J::isz(l)).set("root", sub_json(r)).set("reused_object", J::Bool(reuse)));
                                        compiles += v(&ctx, &f, &input, &log, &cj);
                                    }
                                }
                            }
                        }
                    }
                }
            }
        }
    }
    set_ctx::<F::S>(None);
    let panics = take_panics();
    with_acc(|a| {
        a.evaluations += compiles;
        let cj = light();
        for (k, v) in ctx.counters.lock().unwrap().iter() { a.bump(k, *v); }
        if let Some(s) = ctx.nontrivial.lock().unwrap().get(prop) { a.nontrivial.extend(s.iter().copied()); }
        let viols = std::mem::take(&mut *ctx.violations.lock().unwrap());
        let full = || cj.clone().set("instance", inst.describe());
        for v in viols.iter() {
            if v.prop == prop { a.violation(v.prop, &v.clause, v.detail.clone(), v.facts.clone(), full()); } else { a.bump("other_property_violations_seen", 1); }
        }
        for p in panics.iter() {
            if p.in_library() {
                a.violation(prop, "panic", format!("panic inside the library during a compilation: {} at {}:{}", p.msg, p.file, p.line),
                    J::obj().set("panic_file", J::s(p.file.clone())).set("panic_line", J::i(p.line)).set("dd", J::s(case.dd.name())), full());
            } else {
                a.harness_error(format!("panic outside the library: {} at {}:{}", p.msg, p.file, p.line), full());
            }
        }
        a.bump("instances_driven", 1);
        a.bump("roots_enumerated", roots.len() as u64);
        a.bump(&format!("instances_dd_{}", case.dd.name()), 1);
        a.bump(&format!("instances_family_{}", case.family), 1);
        if a.samples.len() < a.max_samples && roots.len() > 1 {
            a.sample(full().set("roots", J::Arr(roots.iter().take(4).map(sub_json).collect())));
        }
    });
    compiles
}

pub fn drive_any<F: Fam>(case: &DdCase, prop: &'static str, props: u32) -> u64 {
    match case.dd {
        DdKind::Lel => drive::<F, Mdd<F::S, { LAST_EXACT_LAYER }>>(case, prop, props, None),
        DdKind::Fc => drive::<F, Mdd<F::S, { FRONTIER }>>(case, prop, props, None),
        DdKind::Pooled => drive::<F, Pooled<F::S>>(case, prop, props, None),
    }
}

pub fn random_case(rng: &mut Rng, only_all_impacted: bool, long_arcs: bool) -> DdCase {
    let p = Profile { only_all_impacted, long_arcs_only: long_arcs, small: rng.chance(1, 4), depth_free_bias: rng.chance(1, 3), medium_share: 2, large_share: 1, ..Default::default() };
    let spec = random_spec(rng, &p);
    DdCase { family: spec.family, gen_seed: spec.gen_seed, size: spec.size, variant: Variant { dom: crate::models::DomKind::None, ..spec.variant }, dd: spec.cfg.dd, drive_seed: rng.next() >> 8 }
}

/// campaign shared by C06 / C07 / C08
pub fn run_dd_campaign(shard: &Shard, prop: &'static str, props: u32, long_arc_share: u64) -> i32 {
    set_current(prop, false);
    if let Some(path) = &shard.replay {
        let text = std::fs::read_to_string(path).unwrap_or_default();
        let j = match J::parse(&text) { Ok(j) => j, Err(e) => { eprintln!("bad replay file: {e}"); return 2; } };
        let case = DdCase::from_json(&j.get("case").cloned().unwrap_or(j));
        with_family!(case.family, drive_any, &case, prop, props);
        return 0;
    }
    case_loop(shard, u64::MAX, |_i, rng| {
        let long = rng.below(10) < long_arc_share;
        let case = random_case(rng, false, long);
        with_family!(case.family, drive_any, &case, prop, props);
        true
    });
    0
}
