//! C06, C07, C08 (direct diagram driver), C12, C13 (driver + online in solver runs)
use std::sync::Arc;

use super::common::*;
use super::dd::*;
use crate::campaign::*;
use crate::models::Fam;
use crate::monitor::bit;
use crate::runner::*;
use crate::util::J;
use crate::with_family;

pub fn c06(shard: &Shard) -> i32 { run_dd_campaign(shard, "C06", bit(6), 2) }
pub fn c07(shard: &Shard) -> i32 { run_dd_campaign(shard, "C07", bit(7), 2) }
pub fn c08(shard: &Shard) -> i32 { run_dd_campaign(shard, "C08", bit(8), 4) }

fn online<F: Fam>(spec: &CaseSpec, prop: &'static str) {
    let inst = Arc::new(F::generate(spec.gen_seed, spec.size, spec.variant));
    let out = run_solver(&inst, &spec.cfg);
    with_acc(|a| {
        a.evaluations += out.counter("compile_relaxed") + out.counter("compile_restricted") + out.counter("compile_exact");
        a.absorb(&out, prop, &case_json(spec, inst.as_ref()));
        a.bump("solver_runs_monitored", 1);
        if let Some(p) = out.lib_panic() {
            a.bump("solver_runs_with_library_panic", 1);
            let _ = p;
        }
    });
}

fn protocol_campaign(shard: &Shard, prop: &'static str, props: u32, only_all_impacted: bool) -> i32 {
    set_current(prop, false);
    if let Some(path) = &shard.replay {
        let text = std::fs::read_to_string(path).unwrap_or_default();
        let j = match J::parse(&text) { Ok(j) => j, Err(e) => { eprintln!("bad replay file: {e}"); return 2; } };
        let cj = j.get("case").cloned().unwrap_or(j);
        if cj.get("drive_seed").is_some() {
            let case = DdCase::from_json(&cj);
            with_family!(case.family, drive_any, &case, prop, props);
        } else {
            let mut spec = CaseSpec::from_json(&cj);
            spec.cfg.monitors = props;
            with_family!(spec.family, online, &spec, prop);
        }
        return 0;
    }
    case_loop(shard, u64::MAX, |_i, rng| {
        if rng.chance(1, 2) {
            let long = !only_all_impacted && rng.chance(1, 3);
            let mut case = random_case(rng, only_all_impacted, long);
            // a quarter of the table instances of C12 in the big-M style (forbidden decisions cost minus infinity)
            if prop == "C12" && case.family == 'T' && rng.chance(1, 4) { case.size |= crate::models::tmodel::F_BIG_M; }
            with_family!(case.family, drive_any, &case, prop, props);
        } else {
            let p = Profile { only_all_impacted, with_dominance: true, small: rng.chance(1, 3), max_width: 5, medium_share: 1, ..Default::default() };
            let mut spec = random_spec(rng, &p);
            spec.cfg.monitors = props;
            if prop == "C12" && spec.family == 'T' && rng.chance(1, 4) { spec.size |= crate::models::tmodel::F_BIG_M; }
            // the livelock of finding H2 is not this property's business: keep the run short
            with_family!(spec.family, online, &spec, prop);
        }
        true
    });
    0
}
pub fn c12(shard: &Shard) -> i32 { protocol_campaign(shard, "C12", bit(12), false) }
pub fn c13(shard: &Shard) -> i32 {
    // the width combinators never yield zero (grid, exhaustive)
    if shard.idx == 0 && shard.replay.is_none() && shard.only_case.is_none() { width_combinators(); }
    protocol_campaign(shard, "C13", bit(13), true)
}

fn width_combinators() {
    use ddo::*;
    let mut n = 0u64;
    with_acc(|a| {
        for depth in 0..=20usize {
            let sp = SubProblem { state: Arc::new(0u8), value: 0, path: (0..depth).map(|i| Decision { variable: Variable(i), value: 0 }).collect(), ub: 0, depth };
            for inner in 0..=20usize {
                for k in 0..=5usize {
                    let t1 = Times(k, FixedWidth(inner)).max_width(&sp);
                    let t2 = Times(k, NbUnassignedWidth(inner.max(depth))).max_width(&sp);
                    n += 2;
                    for (name, w) in [("Times(k, FixedWidth)", t1), ("Times(k, NbUnassignedWidth)", t2)] {
                        if w == 0 {
                            a.violation("C13", "zero_width", format!("{name} with k={k}, inner width parameter {inner}, depth {depth} yields a width of 0"), J::obj().set("combinator", J::s(name)), J::obj().set("k", J::i(k)).set("inner", J::i(inner)).set("depth", J::i(depth)));
                        }
                    }
                    if k >= 1 {
                        let d1 = DivBy(k, FixedWidth(inner)).max_width(&sp);
                        let d2 = DivBy(k, NbUnassignedWidth(inner.max(depth))).max_width(&sp);
                        n += 2;
                        for (name, w) in [("DivBy(k, FixedWidth)", d1), ("DivBy(k, NbUnassignedWidth)", d2)] {
                            if w == 0 {
                                a.violation("C13", "zero_width", format!("{name} with k={k}, inner width parameter {inner}, depth {depth} yields a width of 0"), J::obj().set("combinator", J::s(name)), J::obj().set("k", J::i(k)).set("inner", J::i(inner)).set("depth", J::i(depth)));
                            }
                        }
                    }
                }
            }
        }
        a.evaluations += n;
        a.bump("width_combinator_evaluations", n);
    });
}
