//! Small self-contained utilities: PRNG, hashing, JSON value (writer + parser).
use std::collections::hash_map::DefaultHasher;
use std::fmt::Write as _;
use std::hash::{Hash, Hasher};

// ---------------------------------------------------------------------------
// PRNG (splitmix64) -- every random choice of the harness derives from VERIF_SEED
// ---------------------------------------------------------------------------
#[derive(Clone, Debug)]
pub struct Rng(pub u64);
impl Rng {
    pub fn new(seed: u64) -> Self {
        Rng(seed ^ 0x9E37_79B9_7F4A_7C15)
    }
    /// derives an independent generator from a seed and a list of stream ids
    pub fn derive(seed: u64, ids: &[u64]) -> Self {
        let mut r = Rng::new(seed);
        for i in ids {
            r.0 = r.0.wrapping_add(i.wrapping_mul(0xD6E8_FEB8_6659_FD93)).rotate_left(17);
            r.next();
        }
        r
    }
    #[allow(clippy::should_implement_trait)]
    pub fn next(&mut self) -> u64 {
        self.0 = self.0.wrapping_add(0x9E37_79B9_7F4A_7C15);
        let mut z = self.0;
        z = (z ^ (z >> 30)).wrapping_mul(0xBF58_476D_1CE4_E5B9);
        z = (z ^ (z >> 27)).wrapping_mul(0x94D0_49BB_1331_11EB);
        z ^ (z >> 31)
    }
    pub fn below(&mut self, n: u64) -> u64 {
        if n == 0 { 0 } else { self.next() % n }
    }
    pub fn usize(&mut self, n: usize) -> usize {
        self.below(n as u64) as usize
    }
    /// inclusive range
    pub fn range(&mut self, lo: i64, hi: i64) -> i64 {
        lo + self.below((hi - lo + 1) as u64) as i64
    }
    pub fn chance(&mut self, num: u64, den: u64) -> bool {
        self.below(den) < num
    }
    pub fn pick<'a, T>(&mut self, xs: &'a [T]) -> &'a T {
        &xs[self.usize(xs.len())]
    }
    pub fn shuffle<T>(&mut self, xs: &mut [T]) {
        for i in (1..xs.len()).rev() {
            let j = self.usize(i + 1);
            xs.swap(i, j);
        }
    }
}

pub fn hash_of<T: Hash + ?Sized>(t: &T) -> u64 {
    let mut h = DefaultHasher::new();
    t.hash(&mut h);
    h.finish()
}
pub fn hash2<A: Hash + ?Sized, B: Hash + ?Sized>(a: &A, b: &B) -> u64 {
    let mut h = DefaultHasher::new();
    a.hash(&mut h);
    b.hash(&mut h);
    h.finish()
}

// ---------------------------------------------------------------------------
// JSON
// ---------------------------------------------------------------------------
#[derive(Clone, Debug, PartialEq)]
pub enum J {
    Null,
    Bool(bool),
    Int(i64),
    Num(f64),
    Str(String),
    Arr(Vec<J>),
    Obj(Vec<(String, J)>),
}
impl J {
    pub fn obj() -> J { J::Obj(vec![]) }
    pub fn s<T: Into<String>>(s: T) -> J { J::Str(s.into()) }
    pub fn i<T: TryInto<i64>>(i: T) -> J { J::Int(i.try_into().ok().unwrap_or(i64::MAX)) }
    pub fn isz(i: isize) -> J { J::Int(i as i64) }
    pub fn arr<T, F: Fn(&T) -> J>(xs: &[T], f: F) -> J { J::Arr(xs.iter().map(f).collect()) }
    pub fn ints<T: Copy + TryInto<i64>>(xs: &[T]) -> J { J::Arr(xs.iter().map(|x| J::i(*x)).collect()) }
    pub fn set(mut self, k: &str, v: J) -> J {
        if let J::Obj(ref mut o) = self {
            if let Some(e) = o.iter_mut().find(|(kk, _)| kk == k) { e.1 = v; } else { o.push((k.to_string(), v)); }
        }
        self
    }
    pub fn put(&mut self, k: &str, v: J) {
        if let J::Obj(ref mut o) = self {
            if let Some(e) = o.iter_mut().find(|(kk, _)| kk == k) { e.1 = v; } else { o.push((k.to_string(), v)); }
        }
    }
    pub fn get(&self, k: &str) -> Option<&J> {
        if let J::Obj(o) = self { o.iter().find(|(kk, _)| kk == k).map(|(_, v)| v) } else { None }
    }
    pub fn as_i64(&self) -> Option<i64> {
        match self { J::Int(i) => Some(*i), J::Num(f) => Some(*f as i64), _ => None }
    }
    pub fn as_str(&self) -> Option<&str> {
        if let J::Str(s) = self { Some(s) } else { None }
    }
    pub fn as_bool(&self) -> Option<bool> {
        if let J::Bool(b) = self { Some(*b) } else { None }
    }
    pub fn as_arr(&self) -> Option<&Vec<J>> {
        if let J::Arr(a) = self { Some(a) } else { None }
    }
    pub fn geti(&self, k: &str) -> Option<i64> { self.get(k).and_then(|j| j.as_i64()) }
    pub fn gets(&self, k: &str) -> Option<&str> { self.get(k).and_then(|j| j.as_str()) }
    pub fn getb(&self, k: &str) -> Option<bool> { self.get(k).and_then(|j| j.as_bool()) }

    pub fn render(&self) -> String {
        let mut s = String::new();
        self.write(&mut s);
        s
    }
    fn write(&self, out: &mut String) {
        match self {
            J::Null => out.push_str("null"),
            J::Bool(b) => { let _ = write!(out, "{b}"); }
            J::Int(i) => { let _ = write!(out, "{i}"); }
            J::Num(f) => {
                if f.is_finite() { let _ = write!(out, "{f}"); } else { out.push_str("null"); }
            }
            J::Str(s) => write_str(out, s),
            J::Arr(a) => {
                out.push('[');
                for (i, x) in a.iter().enumerate() {
                    if i > 0 { out.push(','); }
                    x.write(out);
                }
                out.push(']');
            }
            J::Obj(o) => {
                out.push('{');
                for (i, (k, v)) in o.iter().enumerate() {
                    if i > 0 { out.push(','); }
                    write_str(out, k);
                    out.push(':');
                    v.write(out);
                }
                out.push('}');
            }
        }
    }
    pub fn parse(text: &str) -> Result<J, String> {
        let b = text.as_bytes();
        let mut p = 0usize;
        let v = parse_value(b, &mut p)?;
        skip_ws(b, &mut p);
        if p != b.len() { return Err(format!("trailing characters at {p}")); }
        Ok(v)
    }
}
fn write_str(out: &mut String, s: &str) {
    out.push('"');
    for c in s.chars() {
        match c {
            '"' => out.push_str("\\\""),
            '\\' => out.push_str("\\\\"),
            '\n' => out.push_str("\\n"),
            '\r' => out.push_str("\\r"),
            '\t' => out.push_str("\\t"),
            c if (c as u32) < 0x20 => { let _ = write!(out, "\\u{:04x}", c as u32); }
            c => out.push(c),
        }
    }
    out.push('"');
}
fn skip_ws(b: &[u8], p: &mut usize) {
    while *p < b.len() && (b[*p] == b' ' || b[*p] == b'\n' || b[*p] == b'\t' || b[*p] == b'\r') { *p += 1; }
}
fn parse_value(b: &[u8], p: &mut usize) -> Result<J, String> {
    skip_ws(b, p);
    if *p >= b.len() { return Err("unexpected end".into()); }
    match b[*p] {
        b'{' => {
            *p += 1;
            let mut o = vec![];
            skip_ws(b, p);
            if *p < b.len() && b[*p] == b'}' { *p += 1; return Ok(J::Obj(o)); }
            loop {
                skip_ws(b, p);
                let k = match parse_value(b, p)? { J::Str(s) => s, _ => return Err("key must be a string".into()) };
                skip_ws(b, p);
                if *p >= b.len() || b[*p] != b':' { return Err(format!("expected ':' at {p}")); }
                *p += 1;
                let v = parse_value(b, p)?;
                o.push((k, v));
                skip_ws(b, p);
                if *p >= b.len() { return Err("unexpected end in object".into()); }
                if b[*p] == b',' { *p += 1; continue; }
                if b[*p] == b'}' { *p += 1; return Ok(J::Obj(o)); }
                return Err(format!("expected ',' or '}}' at {p}"));
            }
        }
        b'[' => {
            *p += 1;
            let mut a = vec![];
            skip_ws(b, p);
            if *p < b.len() && b[*p] == b']' { *p += 1; return Ok(J::Arr(a)); }
            loop {
                a.push(parse_value(b, p)?);
                skip_ws(b, p);
                if *p >= b.len() { return Err("unexpected end in array".into()); }
                if b[*p] == b',' { *p += 1; continue; }
                if b[*p] == b']' { *p += 1; return Ok(J::Arr(a)); }
                return Err(format!("expected ',' or ']' at {p}"));
            }
        }
        b'"' => {
            *p += 1;
            let mut s = String::new();
            loop {
                if *p >= b.len() { return Err("unterminated string".into()); }
                match b[*p] {
                    b'"' => { *p += 1; return Ok(J::Str(s)); }
                    b'\\' => {
                        *p += 1;
                        if *p >= b.len() { return Err("bad escape".into()); }
                        match b[*p] {
                            b'n' => s.push('\n'), b't' => s.push('\t'), b'r' => s.push('\r'),
                            b'b' => s.push('\u{8}'), b'f' => s.push('\u{c}'),
                            b'u' => {
                                let hex = std::str::from_utf8(&b[*p + 1..*p + 5]).map_err(|e| e.to_string())?;
                                let cp = u32::from_str_radix(hex, 16).map_err(|e| e.to_string())?;
                                s.push(char::from_u32(cp).unwrap_or('?'));
                                *p += 4;
                            }
                            c => s.push(c as char),
                        }
                        *p += 1;
                    }
                    _ => {
                        // copy one utf8 char
                        let start = *p;
                        *p += 1;
                        while *p < b.len() && (b[*p] & 0xC0) == 0x80 { *p += 1; }
                        s.push_str(std::str::from_utf8(&b[start..*p]).map_err(|e| e.to_string())?);
                    }
                }
            }
        }
        b't' if b[*p..].starts_with(b"true") => { *p += 4; Ok(J::Bool(true)) }
        b'f' if b[*p..].starts_with(b"false") => { *p += 5; Ok(J::Bool(false)) }
        b'n' if b[*p..].starts_with(b"null") => { *p += 4; Ok(J::Null) }
        _ => {
            let start = *p;
            while *p < b.len() && (b[*p] == b'-' || b[*p] == b'+' || b[*p] == b'.' || b[*p] == b'e' || b[*p] == b'E' || b[*p].is_ascii_digit()) { *p += 1; }
            let t = std::str::from_utf8(&b[start..*p]).map_err(|e| e.to_string())?;
            if let Ok(i) = t.parse::<i64>() { Ok(J::Int(i)) }
            else if let Ok(f) = t.parse::<f64>() { Ok(J::Num(f)) }
            else { Err(format!("bad token at {start}: {t:?}")) }
        }
    }
}

/// formats a list of decisions compactly
pub fn fmt_path(path: &[ddo::Decision]) -> String {
    let mut s = String::new();
    for (i, d) in path.iter().enumerate() {
        if i > 0 { s.push(' '); }
        let _ = write!(s, "x{}={}", d.variable.0, d.value);
    }
    s
}
pub fn path_json(path: &[ddo::Decision]) -> J {
    J::Arr(path.iter().map(|d| J::Arr(vec![J::i(d.variable.0), J::isz(d.value)])).collect())
}
pub fn path_from_json(j: &J) -> Vec<ddo::Decision> {
    j.as_arr().map(|a| a.iter().filter_map(|d| {
        let d = d.as_arr()?;
        Some(ddo::Decision { variable: ddo::Variable(d.first()?.as_i64()? as usize), value: d.get(1)?.as_i64()? as isize })
    }).collect()).unwrap_or_default()
}
