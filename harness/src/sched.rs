//! Controlled scheduler for the real threads of the parallel solver (DESIGN §3.4)
//! and delay injection mode (DESIGN §3.5).
//!
//! The ddo hook events (feature `xgillard_ddo_verif`) are delivered to the
//! process global listener below. In *serial* mode exactly one worker makes
//! progress between two scheduling decisions, which are taken only at
//! quiescence; a schedule is a replayable list of worker ids.
use std::cell::Cell;
use std::sync::atomic::{AtomicBool, Ordering as AO};
use std::sync::{Arc, Condvar, Mutex, Once};
use std::time::Duration;

use ddo::verif_hooks::{self, Event, Listener, Site};

use crate::util::{hash_of, Rng};

// yield sites (numbers are part of schedule signatures)
pub const Y_START: u8 = 0;
pub const Y_GET_WORKLOAD: u8 = 1;
pub const Y_BEST_LB1: u8 = 2;
pub const Y_BEST_LB2: u8 = 3;
pub const Y_MAYBE_UPDATE_BEST: u8 = 4;
pub const Y_ENQUEUE_CUTSET: u8 = 5;
pub const Y_NOTIFY_FINISHED: u8 = 6;
pub const Y_ABORT_SEARCH: u8 = 7;
pub const Y_CUTOFF_POLL: u8 = 8;
pub const Y_CACHE_READ: u8 = 9;
pub const Y_CACHE_WRITE: u8 = 10;
pub const Y_DOMINANCE: u8 = 11;

fn site_code(s: Site) -> u8 {
    match s {
        Site::GetWorkload => Y_GET_WORKLOAD,
        Site::BestLb1 => Y_BEST_LB1,
        Site::BestLb2 => Y_BEST_LB2,
        Site::MaybeUpdateBest => Y_MAYBE_UPDATE_BEST,
        Site::EnqueueCutset => Y_ENQUEUE_CUTSET,
        Site::NotifyNodeFinished => Y_NOTIFY_FINISHED,
        Site::AbortSearch => Y_ABORT_SEARCH,
    }
}

#[derive(Clone, Copy, Debug, PartialEq, Eq)]
pub enum WState { NotStarted, Running, AtYield(u8), Parked, InTransit, Exited }

#[derive(Clone, Debug)]
pub enum Strategy {
    /// follow the list, then continue with the default policy
    Replay(Vec<u8>),
    Random(u64),
    /// random priorities with d priority change points (the schedule length is estimated)
    Pct { seed: u64, d: usize, est_len: usize },
    /// forced prefix of choices, then the default policy: sticky (continue the running worker if it is enabled, else the
    /// lowest id) or rotating (the next enabled worker after the one that ran last, cyclically)
    Prefix(Vec<u8>, bool),
}

#[derive(Clone, Debug, Default)]
pub struct StepRec {
    pub chosen: u8,
    pub site: u8,
    pub candidates: Vec<u8>,
    /// worker that ran during the previous step
    pub prev: Option<u8>,
    /// what the default policy would have chosen at this step
    pub default: u8,
}

#[derive(Clone, Debug, Default)]
pub struct SchedReport {
    pub steps: Vec<StepRec>,
    pub parks: u64,
    pub wakeups: u64,
    pub context_switches: u64,
    pub preemptions: u64,
    pub deadlock: Option<String>,
    pub crashed: Vec<usize>,
    pub budget_exhausted: bool,
    pub diverged: bool,
    pub workers_started: usize,
    /// per worker: number of times it was granted the get_workload critical section
    pub grants_by_worker: Vec<u64>,
    /// per worker: number of nodes it started to process (grants of the first best_lb critical section)
    pub nodes_by_worker: Vec<u64>,
    pub yields_by_site: [u64; 12],
}
impl SchedReport {
    pub fn signature(&self) -> u64 {
        let v: Vec<(u8, u8)> = self.steps.iter().map(|s| (s.chosen, s.site)).collect();
        hash_of(&v)
    }
    pub fn grants(&self) -> Vec<u8> { self.steps.iter().map(|s| s.chosen).collect() }
    pub fn workers_with_nodes(&self) -> usize { self.nodes_by_worker.iter().filter(|n| **n > 0).count() }
}

struct Inner {
    expected: usize,
    workers: Vec<WState>,
    turn: Option<usize>,
    last_run: Option<u8>,
    strategy: Strategy,
    rng: Rng,
    prio: Vec<u64>,
    change_points: Vec<usize>,
    report: SchedReport,
    budget: usize,
    free_for_all: bool,
    use_poll_yields: bool,
    use_cache_yields: bool,
}

pub struct Sched {
    inner: Mutex<Inner>,
    cv: Condvar,
    pub abort: Arc<AtomicBool>,
    /// called when the scheduler reaches its deadlock state (the process cannot continue: parked threads cannot be unwound)
    on_deadlock: Mutex<Option<Box<dyn FnOnce(&SchedReport) + Send>>>,
}

#[derive(Clone, Copy, PartialEq, Eq)]
enum Mode { Off, Serial, Delay }
thread_local! {
    static WID: Cell<Option<usize>> = const { Cell::new(None) };
    static IN_CRIT: Cell<bool> = const { Cell::new(false) };
    static DELAY_RNG: Cell<u64> = const { Cell::new(0) };
}
static CURRENT: Mutex<Option<Arc<Sched>>> = Mutex::new(None);
static MODE: Mutex<Mode> = Mutex::new(Mode::Off);
static DELAY_SEED: Mutex<u64> = Mutex::new(0);
static INSTALL: Once = Once::new();

struct Forward;
impl Listener for Forward {
    fn on_event(&self, event: Event) {
        let mode = *MODE.lock().unwrap();
        match mode {
            Mode::Off => {
                // keep the thread local flags coherent in every mode
                track_flags(event);
            }
            Mode::Delay => { track_flags(event); delay(); }
            Mode::Serial => {
                let s = CURRENT.lock().unwrap().clone();
                if let Some(s) = s { s.on_event(event); } else { track_flags(event); }
            }
        }
    }
}
fn track_flags(event: Event) {
    match event {
        Event::WorkerStart(i) => { WID.with(|w| w.set(Some(i))); IN_CRIT.with(|c| c.set(false)); }
        Event::WorkerExit(..) => { WID.with(|w| w.set(None)); }
        Event::LockRequest(_) => IN_CRIT.with(|c| c.set(true)),
        Event::LockReleased(_) => IN_CRIT.with(|c| c.set(false)),
        _ => {}
    }
}
fn delay() {
    let seed = *DELAY_SEED.lock().unwrap();
    let r = DELAY_RNG.with(|c| {
        let mut x = c.get();
        if x == 0 { x = seed ^ hash_of(&std::thread::current().id()) | 1; }
        x ^= x << 13; x ^= x >> 7; x ^= x << 17;
        c.set(x);
        x
    });
    match r % 8 {
        0 => std::thread::sleep(Duration::from_micros(r >> 8 & 0x7F)),
        1 | 2 => std::thread::yield_now(),
        _ => {}
    }
}

pub fn install() {
    INSTALL.call_once(|| verif_hooks::set_listener(Some(Arc::new(Forward))));
}
pub fn set_delay_mode(seed: Option<u64>) {
    install();
    match seed {
        Some(s) => { *DELAY_SEED.lock().unwrap() = s; *MODE.lock().unwrap() = Mode::Delay; }
        None => { *MODE.lock().unwrap() = Mode::Off; }
    }
}

/// Extra yield point offered by harness side objects (cutoff poll, cache operations).
/// Never yields while the calling worker holds the critical mutex.
pub fn yield_point(site: u8) {
    let wid = WID.with(|w| w.get());
    if wid.is_none() { return; }
    if IN_CRIT.with(|c| c.get()) { return; }
    let mode = *MODE.lock().unwrap();
    match mode {
        Mode::Off => {}
        Mode::Delay => delay(),
        Mode::Serial => {
            let s = CURRENT.lock().unwrap().clone();
            if let Some(s) = s { s.yield_at(wid.unwrap(), site, false); }
        }
    }
}

impl Sched {
    pub fn new(expected: usize, strategy: Strategy, budget: usize, use_poll_yields: bool, use_cache_yields: bool, abort: Arc<AtomicBool>) -> Arc<Sched> {
        let (seed, d, est) = match &strategy {
            Strategy::Random(s) => (*s, 0, 0),
            Strategy::Pct { seed, d, est_len } => (*seed, *d, *est_len),
            _ => (0, 0, 0),
        };
        let mut rng = Rng::new(seed);
        let prio: Vec<u64> = (0..expected.max(1)).map(|_| rng.next() | (1 << 40)).collect();
        let mut change_points: Vec<usize> = (0..d).map(|_| rng.usize(est.max(1))).collect();
        change_points.sort_unstable();
        Arc::new(Sched {
            inner: Mutex::new(Inner {
                expected, workers: vec![WState::NotStarted; expected], turn: None, last_run: None, strategy, rng, prio, change_points,
                report: SchedReport { grants_by_worker: vec![0; expected], nodes_by_worker: vec![0; expected], ..Default::default() }, budget, free_for_all: false, use_poll_yields, use_cache_yields,
            }),
            cv: Condvar::new(),
            abort,
            on_deadlock: Mutex::new(None),
        })
    }
    pub fn set_on_deadlock(&self, f: Box<dyn FnOnce(&SchedReport) + Send>) { *self.on_deadlock.lock().unwrap() = Some(f); }

    /// Makes this scheduler the current one (serial mode)
    pub fn activate(self: &Arc<Self>) {
        install();
        *CURRENT.lock().unwrap() = Some(self.clone());
        *MODE.lock().unwrap() = Mode::Serial;
    }
    pub fn deactivate() -> Option<SchedReport> {
        *MODE.lock().unwrap() = Mode::Off;
        let s = CURRENT.lock().unwrap().take();
        s.map(|s| s.inner.lock().unwrap().report.clone())
    }

    fn on_event(&self, event: Event) {
        match event {
            Event::WorkerStart(i) => {
                WID.with(|w| w.set(Some(i)));
                IN_CRIT.with(|c| c.set(false));
                let mut g = self.inner.lock().unwrap();
                if i >= g.workers.len() { g.workers.resize(i + 1, WState::NotStarted); g.report.grants_by_worker.resize(i + 1, 0); g.report.nodes_by_worker.resize(i + 1, 0); g.prio.push(1 << 39); }
                g.workers[i] = WState::InTransit;
                g.report.workers_started += 1;
            }
            Event::WorkerExit(i, panicking) => {
                WID.with(|w| w.set(None));
                let mut g = self.inner.lock().unwrap();
                g.workers[i] = WState::Exited;
                if panicking { g.report.crashed.push(i); }
                if g.turn == Some(i) { g.turn = None; }
                self.decide(&mut g);
            }
            Event::LockRequest(site) => {
                let wid = WID.with(|w| w.get());
                if let Some(w) = wid {
                    self.yield_at(w, site_code(site), true);
                }
            }
            Event::LockReleased(_) => { IN_CRIT.with(|c| c.set(false)); }
            Event::CondWaitEnter => {
                let wid = WID.with(|w| w.get());
                if let Some(w) = wid {
                    let mut g = self.inner.lock().unwrap();
                    g.workers[w] = WState::Parked;
                    g.report.parks += 1;
                    if g.turn == Some(w) { g.turn = None; }
                    self.decide(&mut g);
                }
            }
            Event::NotifiedAll => {
                let mut g = self.inner.lock().unwrap();
                let mut n = 0;
                for s in g.workers.iter_mut() { if *s == WState::Parked { *s = WState::InTransit; n += 1; } }
                g.report.wakeups += n;
            }
        }
    }

    fn yield_at(&self, w: usize, site: u8, critical: bool) {
        let mut g = self.inner.lock().unwrap();
        if !critical {
            if (site == Y_CUTOFF_POLL && !g.use_poll_yields) || ((site == Y_CACHE_READ || site == Y_CACHE_WRITE || site == Y_DOMINANCE) && !g.use_cache_yields) { return; }
        }
        if g.free_for_all {
            if critical { IN_CRIT.with(|c| c.set(true)); }
            return;
        }
        g.workers[w] = WState::AtYield(site);
        if g.turn == Some(w) { g.turn = None; }
        self.decide(&mut g);
        while g.turn != Some(w) && !g.free_for_all {
            g = self.cv.wait(g).unwrap();
        }
        g.workers[w] = WState::Running;
        drop(g);
        if critical { IN_CRIT.with(|c| c.set(true)); }
    }

    /// takes a scheduling decision if (and only if) the system is quiescent
    fn decide(&self, g: &mut Inner) {
        if g.free_for_all || g.turn.is_some() { return; }
        if g.report.workers_started < g.expected { return; }
        if g.workers.iter().any(|s| matches!(s, WState::NotStarted | WState::Running | WState::InTransit)) { return; }
        let cands: Vec<u8> = g.workers.iter().enumerate().filter(|(_, s)| matches!(s, WState::AtYield(_))).map(|(i, _)| i as u8).collect();
        if cands.is_empty() {
            if g.workers.iter().any(|s| *s == WState::Parked) {
                let msg = format!("DEADLOCK: no worker can run, states = {:?}", g.workers);
                g.report.deadlock = Some(msg);
                let cb = self.on_deadlock.lock().unwrap().take();
                if let Some(cb) = cb { cb(&g.report); }
            }
            return;
        }
        let step = g.report.steps.len();
        if step >= g.budget {
            // budget exhausted: stop serialising, make the cutoff fire so that the run ends; verdict = inconclusive
            g.report.budget_exhausted = true;
            g.free_for_all = true;
            self.abort.store(true, AO::SeqCst);
            self.cv.notify_all();
            return;
        }
        let rotate = matches!(&g.strategy, Strategy::Prefix(_, true));
        let default = if rotate {
            match g.last_run { Some(p) => *cands.iter().find(|c| **c > p).unwrap_or(&cands[0]), None => cands[0] }
        } else {
            match g.last_run { Some(p) if cands.contains(&p) => p, _ => cands[0] }
        };
        let chosen: u8 = match &g.strategy {
            Strategy::Replay(list) | Strategy::Prefix(list, _) => {
                if step < list.len() {
                    if cands.contains(&list[step]) { list[step] } else { g.report.diverged = true; default }
                } else { default }
            }
            Strategy::Random(_) => { let i = g.rng.usize(cands.len()); cands[i] }
            Strategy::Pct { .. } => {
                while !g.change_points.is_empty() && g.change_points[0] <= step {
                    g.change_points.remove(0);
                    // lower the priority of the worker that would run
                    let top = *cands.iter().max_by_key(|c| g.prio[**c as usize]).unwrap();
                    let low = g.change_points.len() as u64 + 1;
                    g.prio[top as usize] = low;
                }
                *cands.iter().max_by_key(|c| g.prio[**c as usize]).unwrap()
            }
        };
        let site = match g.workers[chosen as usize] { WState::AtYield(s) => s, _ => 255 };
        if let Some(p) = g.last_run {
            if p != chosen {
                g.report.context_switches += 1;
                if cands.contains(&p) { g.report.preemptions += 1; }
            }
        }
        if site == Y_GET_WORKLOAD { g.report.grants_by_worker[chosen as usize] += 1; }
        if site == Y_BEST_LB1 { g.report.nodes_by_worker[chosen as usize] += 1; }
        if (site as usize) < 12 { g.report.yields_by_site[site as usize] += 1; }
        let prev = g.last_run;
        g.report.steps.push(StepRec { chosen, site, candidates: cands, prev, default });
        g.last_run = Some(chosen);
        g.turn = Some(chosen as usize);
        self.cv.notify_all();
    }
}

/// Computes the next forced prefix of a stateless depth-first enumeration of all schedules that deviate at most
/// `max_dev` times from the default policy (for the sticky policy a deviation while the running worker is enabled is a
/// pre-emption), given the steps of the run that followed the previous prefix. None when the space is exhausted.
pub fn next_prefix(steps: &[StepRec], max_dev: usize) -> Option<Vec<u8>> {
    // alternatives are ordered: default first, then the remaining candidates in increasing id.
    let order = |s: &StepRec| -> Vec<u8> {
        let mut v = vec![s.default];
        v.extend(s.candidates.iter().copied().filter(|c| *c != s.default));
        v
    };
    let mut used = vec![0usize; steps.len() + 1];
    for (i, s) in steps.iter().enumerate() { used[i + 1] = used[i] + usize::from(s.chosen != s.default); }
    for i in (0..steps.len()).rev() {
        let s = &steps[i];
        let ord = order(s);
        let pos = ord.iter().position(|c| *c == s.chosen).unwrap_or(0);
        for alt in ord.iter().skip(pos + 1) {
            let cost = usize::from(*alt != s.default);
            if used[i] + cost <= max_dev {
                let mut p: Vec<u8> = steps[..i].iter().map(|x| x.chosen).collect();
                p.push(*alt);
                return Some(p);
            }
        }
    }
    None
}
