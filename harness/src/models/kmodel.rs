//! Family K: 0/1 knapsack as in the README of ddo (depth embedded in the state,
//! max-capacity merge, identity arc relaxation, admissible bound, capacity dominance).
use std::cmp::Ordering;
use std::sync::Arc;

use ddo::*;

use super::{DomKind, Fam, Oracle, RankKind, Replayed, RubKind, Variant};
use crate::util::{hash2, hash_of, Rng, J};

pub const KSZ_GRID: u32 = 0; // bounded exhaustive: index encoded in the seed
pub const KSZ_TINY: u32 = 1;
pub const KSZ_SMALL: u32 = 2;
pub const KSZ_FEWWEIGHTS: u32 = 3; // few distinct weights => heavy re-convergence
pub const KSZ_MEDIUM: u32 = 4; // 12..20 items
pub const KSZ_LARGE: u32 = 5; // 28..44 items
pub const KSZ_LARGE_FEW: u32 = 6; // 28..44 items, weights in {1,2,3}: heavy re-convergence, many stale duplicates on a simple fringe

#[derive(Clone, PartialEq, Eq, Hash, Debug)]
pub struct KState { pub depth: usize, pub cap: usize }

#[derive(Debug)]
pub struct KInst {
    pub n: usize,
    pub cap: usize,
    pub profit: Vec<isize>,
    pub weight: Vec<usize>,
    pub variant: Variant,
    pub gen: (u64, u32),
    /// g[depth][cap]
    pub g: Vec<Vec<isize>>,
}
/// size of the bounded-exhaustive grid: n<=3, w,p in {1,2}, cap<=4
pub fn grid_len() -> u64 {
    // n=1: 4*5, n=2: 16*5, n=3: 64*5
    (4 + 16 + 64) * 5
}
impl KInst {
    pub fn build(seed: u64, size: u32, variant: Variant) -> KInst {
        let (n, cap, profit, weight) = if size == KSZ_GRID {
            let mut idx = seed % grid_len();
            let cap = (idx % 5) as usize;
            idx /= 5;
            let n = if idx < 4 { 1 } else if idx < 20 { idx -= 4; 2 } else { idx -= 20; 3 };
            let mut profit = vec![];
            let mut weight = vec![];
            for _ in 0..n {
                profit.push(1 + (idx % 2) as isize);
                idx /= 2;
                weight.push(1 + (idx % 2) as usize);
                idx /= 2;
            }
            (n, cap, profit, weight)
        } else {
            let mut rng = Rng::derive(seed, &[0x4B, size as u64]);
            let n = match size { KSZ_TINY => rng.range(3, 6), KSZ_SMALL => rng.range(6, 12), KSZ_MEDIUM => rng.range(12, 20), KSZ_LARGE | KSZ_LARGE_FEW => rng.range(28, 44), _ => rng.range(6, 10) } as usize;
            let wmax = if size == KSZ_FEWWEIGHTS { 2 } else if size == KSZ_LARGE_FEW { 3 } else { 9 };
            let weight: Vec<usize> = (0..n).map(|_| rng.range(1, wmax) as usize).collect();
            let profit: Vec<isize> = (0..n).map(|_| rng.range(1, if size == KSZ_FEWWEIGHTS || size == KSZ_LARGE_FEW { 4 } else { 12 }) as isize).collect();
            let tot: usize = weight.iter().sum();
            let cap = rng.range(1, (tot as i64 * 2 / 3).max(1)) as usize;
            (n, cap, profit, weight)
        };
        let mut g = vec![vec![0isize; cap + 1]; n + 1];
        for d in (0..n).rev() {
            for c in 0..=cap {
                let mut b = g[d + 1][c];
                if weight[d] <= c { b = b.max(profit[d] + g[d + 1][c - weight[d]]); }
                g[d][c] = b;
            }
        }
        KInst { n, cap, profit, weight, variant, gen: (seed, size), g }
    }
    /// admissible (not exact) bound: sum of the profits of the remaining items that fit on their own
    fn loose(&self, st: &KState) -> isize {
        (st.depth..self.n).filter(|i| self.weight[*i] <= st.cap).map(|i| self.profit[i]).sum()
    }
}
impl Problem for KInst {
    type State = KState;
    fn nb_variables(&self) -> usize { self.n }
    fn initial_state(&self) -> KState { KState { depth: 0, cap: self.cap } }
    fn initial_value(&self) -> isize { 0 }
    fn transition(&self, st: &KState, dec: Decision) -> KState {
        let mut r = st.clone();
        r.depth += 1;
        if dec.value == 1 { r.cap -= self.weight[dec.variable.0]; }
        r
    }
    /// the reward is read off the *pair* of states (the item was taken iff the capacity dropped: weights are >= 1), not
    /// off the decision: the destination argument is a legal part of the contract that a model may rely on
    fn transition_cost(&self, s: &KState, d: &KState, dec: Decision) -> isize {
        if d.cap < s.cap { self.profit[dec.variable.0] } else { 0 }
    }
    fn next_variable(&self, depth: usize, _n: &mut dyn Iterator<Item = &KState>) -> Option<Variable> {
        if depth < self.n { Some(Variable(depth)) } else { None }
    }
    fn for_each_in_domain(&self, var: Variable, st: &KState, f: &mut dyn DecisionCallback) {
        if st.cap >= self.weight[var.0] { f.apply(Decision { variable: var, value: 1 }); }
        f.apply(Decision { variable: var, value: 0 });
    }
}
pub struct KRelax(pub Arc<KInst>);
impl Relaxation for KRelax {
    type State = KState;
    fn merge(&self, states: &mut dyn Iterator<Item = &KState>) -> KState {
        let mut depth = 0;
        let mut cap = 0;
        for s in states { depth = s.depth; cap = cap.max(s.cap); }
        KState { depth, cap }
    }
    fn relax(&self, _s: &KState, _d: &KState, _m: &KState, _dec: Decision, cost: isize) -> isize { cost }
    fn fast_upper_bound(&self, st: &KState) -> isize {
        match self.0.variant.rub {
            RubKind::None => isize::MAX,
            RubKind::Exact => self.0.g[st.depth][st.cap],
            RubKind::Slack(seed) => if hash2(st, &seed) % 2 == 0 { self.0.loose(st) } else { self.0.g[st.depth][st.cap] + (hash2(st, &seed) % 3) as isize },
        }
    }
}
pub struct KRank(pub Arc<KInst>);
impl StateRanking for KRank {
    type State = KState;
    fn compare(&self, a: &KState, b: &KState) -> Ordering {
        match self.0.variant.rank {
            RankKind::Natural => a.cap.cmp(&b.cap),
            RankKind::Reverse => b.cap.cmp(&a.cap),
            RankKind::Random(seed) => hash2(a, &seed).cmp(&hash2(b, &seed)),
            RankKind::Flat => Ordering::Equal,
        }
    }
}
pub struct KDom(pub bool);
impl Dominance for KDom {
    type State = KState;
    type Key = usize;
    fn get_key(&self, s: Arc<KState>) -> Option<usize> { Some(s.depth) }
    fn nb_dimensions(&self, _s: &KState) -> usize { if self.0 { 2 } else { 1 } }
    fn get_coordinate(&self, s: &KState, i: usize) -> isize { if i == 0 { s.cap as isize } else { (s.cap % 2) as isize } }
    fn use_value(&self) -> bool { true }
}
impl Oracle<KState> for KInst {
    fn nvars(&self) -> usize { self.n }
    fn optimum(&self) -> Option<isize> { Some(self.g[0][self.cap]) }
    fn hstar(&self, s: &KState, depth: usize) -> Option<isize> {
        if depth != s.depth || depth > self.n || s.cap > self.cap { return None; }
        Some(self.g[depth][s.cap])
    }
    fn replay(&self, path: &[Decision], depth: Option<usize>) -> Result<Replayed<KState>, String> {
        let target = depth.unwrap_or(self.n);
        if target > self.n { return Err(format!("depth {target} exceeds the number of variables")); }
        let mut by: Vec<Option<isize>> = vec![None; self.n];
        for d in path {
            if d.variable.0 >= self.n { return Err(format!("unknown variable {}", d.variable.0)); }
            if by[d.variable.0].is_some() { return Err(format!("two decisions for variable {}", d.variable.0)); }
            by[d.variable.0] = Some(d.value);
        }
        let mut st = self.initial_state();
        let mut value = 0;
        for (i, v) in by.iter().enumerate() {
            if i >= target {
                if v.is_some() { return Err(format!("decision on variable {i} beyond depth {target}")); }
                continue;
            }
            match v {
                None => return Err(format!("no decision for variable {i}")),
                Some(v) => {
                    if !(*v == 0 || (*v == 1 && st.cap >= self.weight[i])) { return Err(format!("value {v} not in the domain of variable {i} with capacity {}", st.cap)); }
                    let dec = Decision { variable: Variable(i), value: *v };
                    let n = self.transition(&st, dec);
                    value += self.transition_cost(&st, &n, dec);
                    st = n;
                }
            }
        }
        Ok(Replayed { state: st, value })
    }
    fn static_var_at(&self, depth: usize) -> Option<Variable> { if depth < self.n { Some(Variable(depth)) } else { None } }
    fn is_static_order(&self) -> bool { true }
    fn all_impacted(&self) -> bool { true }
    fn depth_in_state(&self) -> bool { true }
}
impl Fam for KInst {
    type S = KState;
    type Relax = KRelax;
    type Rank = KRank;
    fn family() -> &'static str { "K" }
    fn generate(seed: u64, size: u32, variant: Variant) -> Self { KInst::build(seed, size, variant) }
    fn variant(&self) -> Variant { self.variant }
    fn mk_relax(self: &Arc<Self>) -> KRelax { KRelax(self.clone()) }
    fn mk_rank(self: &Arc<Self>) -> KRank { KRank(self.clone()) }
    fn mk_dominance(self: &Arc<Self>) -> Option<Box<dyn DominanceChecker<State = KState> + Send + Sync>> {
        match self.variant.dom {
            DomKind::None => None,
            DomKind::Exact => Some(Box::new(SimpleDominanceChecker::new(KDom(false), self.n))),
            DomKind::Weak => Some(Box::new(SimpleDominanceChecker::new(KDom(true), self.n))),
        }
    }
    fn describe(&self) -> J {
        J::obj().set("family", J::s("K")).set("gen_seed", J::Int(self.gen.0 as i64)).set("gen_size", J::i(self.gen.1))
            .set("capacity", J::i(self.cap)).set("profit", J::ints(&self.profit)).set("weight", J::ints(&self.weight))
            .set("variant", self.variant.json()).set("optimum", J::isz(self.g[0][self.cap]))
    }
    fn ihash(&self) -> u64 { hash_of(&(self.cap, &self.profit, &self.weight)) }
    fn supports_dominance(&self) -> bool { true }
}
