//! Family Q: longest-common-subsequence style model (as the lcs example): the state is a vector of positions
//! (one per string), variable k stands for position k of the first string and a state is impacted by it iff its
//! first position equals k (long arcs in the pooled diagram). Depth-free states, min-positions merge, identity arc
//! relaxation, exact suffix-LCS table as oracle and rough bound.
use std::cmp::Ordering;
use std::collections::HashMap;
use std::sync::Arc;

use ddo::*;

use super::{Fam, Oracle, RankKind, Replayed, RubKind, Variant};
use crate::util::{hash2, hash_of, Rng, J};

pub const QSZ_TINY: u32 = 1;
pub const QSZ_SMALL: u32 = 2;
pub const QSZ_MEDIUM: u32 = 3;
pub const GO_TO_END: isize = -1;

#[derive(Clone, PartialEq, Eq, Hash, Debug)]
pub struct QState(pub Vec<u8>);

#[derive(Debug)]
pub struct QInst {
    pub strings: Vec<Vec<u8>>,
    pub alpha: usize,
    pub variant: Variant,
    pub gen: (u64, u32),
    /// exact LCS length of the suffixes starting at a position vector
    pub table: HashMap<Vec<u8>, isize>,
}
impl QInst {
    pub fn build(seed: u64, size: u32, variant: Variant) -> QInst {
        let mut rng = Rng::derive(seed, &[0x51, size as u64]);
        let m = rng.range(2, 3) as usize;
        let alpha = rng.range(2, 3) as usize;
        let (lo, hi) = if size == QSZ_MEDIUM { (8, 11) } else if size == QSZ_SMALL { (5, 8) } else { (3, 5) };
        let strings: Vec<Vec<u8>> = (0..m).map(|_| (0..rng.range(lo, hi)).map(|_| rng.below(alpha as u64) as u8).collect()).collect();
        let mut inst = QInst { strings, alpha, variant, gen: (seed, size), table: HashMap::new() };
        let start = vec![0u8; m];
        inst.fill(&start);
        // all position vectors (merged states take the minimum of each coordinate: any vector can show up)
        let lens: Vec<usize> = inst.strings.iter().map(|s| s.len()).collect();
        let mut cur = vec![0u8; m];
        loop {
            inst.fill(&cur);
            let mut i = 0;
            loop {
                if i == m { return inst; }
                if (cur[i] as usize) < lens[i] { cur[i] += 1; break; }
                cur[i] = 0;
                i += 1;
            }
        }
    }
    fn next_occ(&self, i: usize, c: u8, from: usize) -> Option<usize> {
        (from..self.strings[i].len()).find(|p| self.strings[i][*p] == c)
    }
    fn fill(&mut self, pos: &[u8]) -> isize {
        if let Some(v) = self.table.get(pos) { return *v; }
        let mut best = 0;
        for c in 0..self.alpha as u8 {
            let nx: Option<Vec<u8>> = (0..pos.len()).map(|i| self.next_occ(i, c, pos[i] as usize).map(|p| (p + 1) as u8)).collect();
            if let Some(nx) = nx { best = best.max(1 + self.fill(&nx)); }
        }
        self.table.insert(pos.to_vec(), best);
        best
    }
    fn valid_chars(&self, pos: &[u8]) -> Vec<u8> {
        (0..self.alpha as u8).filter(|c| (0..pos.len()).all(|i| self.next_occ(i, *c, pos[i] as usize).is_some())).collect()
    }
    fn ends(&self) -> Vec<u8> { self.strings.iter().map(|s| s.len() as u8).collect() }
}
impl Problem for QInst {
    type State = QState;
    fn nb_variables(&self) -> usize { self.strings[0].len() }
    fn initial_state(&self) -> QState { QState(vec![0; self.strings.len()]) }
    fn initial_value(&self) -> isize { 0 }
    fn transition(&self, st: &QState, dec: Decision) -> QState {
        if dec.value == GO_TO_END { return QState(self.ends()); }
        let c = dec.value as u8;
        QState((0..st.0.len()).map(|i| self.next_occ(i, c, st.0[i] as usize).map_or(self.strings[i].len() as u8, |p| (p + 1) as u8)).collect())
    }
    fn transition_cost(&self, _s: &QState, _d: &QState, dec: Decision) -> isize { if dec.value == GO_TO_END { 0 } else { 1 } }
    fn next_variable(&self, depth: usize, _n: &mut dyn Iterator<Item = &QState>) -> Option<Variable> {
        if depth < self.nb_variables() { Some(Variable(depth)) } else { None }
    }
    fn for_each_in_domain(&self, var: Variable, st: &QState, f: &mut dyn DecisionCallback) {
        let cs = self.valid_chars(&st.0);
        if cs.is_empty() { f.apply(Decision { variable: var, value: GO_TO_END }); }
        for c in cs { f.apply(Decision { variable: var, value: c as isize }); }
    }
    fn is_impacted_by(&self, var: Variable, st: &QState) -> bool { var.0 == st.0[0] as usize }
}
pub struct QRelax(pub Arc<QInst>);
impl Relaxation for QRelax {
    type State = QState;
    fn merge(&self, states: &mut dyn Iterator<Item = &QState>) -> QState {
        let mut pos = self.0.ends();
        for s in states { for (p, q) in pos.iter_mut().zip(s.0.iter()) { *p = (*p).min(*q); } }
        QState(pos)
    }
    fn relax(&self, _s: &QState, _d: &QState, _m: &QState, _dec: Decision, cost: isize) -> isize { cost }
    fn fast_upper_bound(&self, st: &QState) -> isize {
        let exact = self.0.table.get(&st.0).copied().unwrap_or(isize::MAX);
        match self.0.variant.rub {
            RubKind::None => isize::MAX,
            RubKind::Exact => exact,
            RubKind::Slack(seed) => if hash2(st, &seed) % 2 == 0 { (0..st.0.len()).map(|i| self.0.strings[i].len() as isize - st.0[i] as isize).min().unwrap_or(0) } else { exact.saturating_add((hash2(st, &seed) % 2) as isize) },
        }
    }
}
pub struct QRank(pub Arc<QInst>);
impl StateRanking for QRank {
    type State = QState;
    fn compare(&self, a: &QState, b: &QState) -> Ordering {
        let sum = |s: &QState| s.0.iter().map(|x| *x as usize).sum::<usize>();
        match self.0.variant.rank {
            RankKind::Natural => sum(b).cmp(&sum(a)).then_with(|| a.0.cmp(&b.0)),
            RankKind::Reverse => sum(a).cmp(&sum(b)).then_with(|| b.0.cmp(&a.0)),
            RankKind::Random(seed) => hash2(a, &seed).cmp(&hash2(b, &seed)),
            RankKind::Flat => Ordering::Equal,
        }
    }
}
impl Oracle<QState> for QInst {
    fn nvars(&self) -> usize { self.strings[0].len() }
    fn optimum(&self) -> Option<isize> { self.table.get(&vec![0u8; self.strings.len()]).copied() }
    fn hstar(&self, s: &QState, _depth: usize) -> Option<isize> { self.table.get(&s.0).copied() }
    fn replay(&self, path: &[Decision], depth: Option<usize>) -> Result<Replayed<QState>, String> {
        let n = self.nvars();
        if let Some(d) = depth {
            if d > n { return Err(format!("depth {d} exceeds the number of variables")); }
            if path.len() > d { return Err(format!("{} decisions for a sub-problem at depth {d}", path.len())); }
        }
        let mut p: Vec<Decision> = path.to_vec();
        p.sort_by_key(|d| d.variable.0);
        for w in p.windows(2) { if w[0].variable == w[1].variable { return Err(format!("two decisions for variable {}", w[0].variable.0)); } }
        let mut st = self.initial_state();
        let mut value = 0;
        for d in p {
            if d.variable.0 >= n { return Err(format!("unknown variable {}", d.variable.0)); }
            if let Some(dep) = depth { if d.variable.0 >= dep { return Err(format!("decision on variable {} which lies at depth >= {dep}", d.variable.0)); } }
            let cs = self.valid_chars(&st.0);
            let ok = if d.value == GO_TO_END { cs.is_empty() } else { d.value >= 0 && cs.contains(&(d.value as u8)) };
            if !ok { return Err(format!("value {} not in the domain of variable {} at positions {:?}", d.value, d.variable.0, st.0)); }
            let ns = self.transition(&st, d);
            value += self.transition_cost(&st, &ns, d);
            st = ns;
        }
        Ok(Replayed { state: st, value })
    }
    fn static_var_at(&self, _depth: usize) -> Option<Variable> { None }
    // the layer structure of a path depends on the diagram type (the plain diagrams expand every state on every
    // variable, the pooled one only on the variable matching its first position): treated like a dynamic order
    fn is_static_order(&self) -> bool { false }
    fn all_impacted(&self) -> bool { false }
    fn depth_in_state(&self) -> bool { false }
}
impl Fam for QInst {
    type S = QState;
    type Relax = QRelax;
    type Rank = QRank;
    fn family() -> &'static str { "Q" }
    fn generate(seed: u64, size: u32, variant: Variant) -> Self {
        let mut v = variant;
        v.dom = super::DomKind::None;
        QInst::build(seed, size, v)
    }
    fn variant(&self) -> Variant { self.variant }
    fn mk_relax(self: &Arc<Self>) -> QRelax { QRelax(self.clone()) }
    fn mk_rank(self: &Arc<Self>) -> QRank { QRank(self.clone()) }
    fn mk_dominance(self: &Arc<Self>) -> Option<Box<dyn DominanceChecker<State = QState> + Send + Sync>> { None }
    fn describe(&self) -> J {
        J::obj().set("family", J::s("Q")).set("gen_seed", J::Int(self.gen.0 as i64)).set("gen_size", J::i(self.gen.1))
            .set("strings", J::Arr(self.strings.iter().map(|s| J::ints(s)).collect())).set("alphabet", J::i(self.alpha))
            .set("variant", self.variant.json()).set("optimum", self.optimum().map_or(J::Null, J::isz))
    }
    fn ihash(&self) -> u64 { hash_of(&self.strings) }
    fn supports_dominance(&self) -> bool { false }
}
