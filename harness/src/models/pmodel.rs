//! Family P: weighted independent set / set packing style model with a
//! *dynamic* variable order (least frequent item of the layer), depth-free
//! states (set of still eligible items), union merge, sum-of-weights bound,
//! and long arcs (`is_impacted_by` = item still eligible).
use std::cmp::Ordering;
use std::sync::Arc;

use ddo::*;

use super::{Fam, Oracle, RankKind, Replayed, RubKind, Variant};
use crate::util::{hash2, hash_of, Rng, J};

pub const PSZ_TINY: u32 = 1; // 3..6 vertices
pub const PSZ_SMALL: u32 = 2; // 6..11 vertices
pub const PSZ_SPARSE: u32 = 3; // sparse graphs: many re-convergent states
pub const PSZ_MEDIUM: u32 = 4; // 11..15 vertices
pub const PSZ_LARGE: u32 = 5; // 16..19 vertices

#[derive(Clone, PartialEq, Eq, Hash, Debug)]
pub struct PState(pub u32);

#[derive(Debug)]
pub struct PInst {
    pub n: usize,
    /// adj[v] = mask of the vertices in conflict with v
    pub adj: Vec<u32>,
    pub weight: Vec<isize>,
    pub variant: Variant,
    pub gen: (u64, u32),
    /// mwis[mask]
    pub f: Vec<isize>,
}
impl PInst {
    pub fn build(seed: u64, size: u32, variant: Variant) -> PInst {
        let mut rng = Rng::derive(seed, &[0x50, size as u64]);
        let n = match size { PSZ_TINY => rng.range(3, 6), PSZ_SMALL => rng.range(6, 11), PSZ_MEDIUM => rng.range(11, 15), PSZ_LARGE => rng.range(16, 19), _ => rng.range(6, 10) } as usize;
        let dens = if size == PSZ_SPARSE { 1 } else { rng.range(1, 3) as u64 };
        let mut adj = vec![0u32; n];
        for a in 0..n {
            for b in a + 1..n {
                if rng.chance(dens, 5) { adj[a] |= 1 << b; adj[b] |= 1 << a; }
            }
        }
        let weight: Vec<isize> = (0..n).map(|_| rng.range(1, 5) as isize).collect();
        let mut f = vec![0isize; 1 << n];
        for mask in 1u32..(1u32 << n) {
            let v = mask.trailing_zeros() as usize;
            let without = f[(mask & !(1 << v)) as usize];
            let with = weight[v] + f[(mask & !(1 << v) & !adj[v]) as usize];
            f[mask as usize] = without.max(with);
        }
        PInst { n, adj, weight, variant, gen: (seed, size), f }
    }
    fn sumw(&self, mask: u32) -> isize {
        (0..self.n).filter(|i| mask & (1 << i) != 0).map(|i| self.weight[i]).sum()
    }
}
impl Problem for PInst {
    type State = PState;
    fn nb_variables(&self) -> usize { self.n }
    fn initial_state(&self) -> PState { PState((1u32 << self.n) - 1) }
    fn initial_value(&self) -> isize { 0 }
    fn transition(&self, st: &PState, dec: Decision) -> PState {
        let v = dec.variable.0;
        let mut m = st.0 & !(1 << v);
        if dec.value == 1 { m &= !self.adj[v]; }
        PState(m)
    }
    fn transition_cost(&self, _s: &PState, _d: &PState, dec: Decision) -> isize {
        if dec.value == 1 { self.weight[dec.variable.0] } else { 0 }
    }
    fn next_variable(&self, _depth: usize, next_layer: &mut dyn Iterator<Item = &PState>) -> Option<Variable> {
        let mut cnt = vec![0usize; self.n];
        for s in next_layer {
            for (i, c) in cnt.iter_mut().enumerate() { if s.0 & (1 << i) != 0 { *c += 1; } }
        }
        cnt.iter().copied().enumerate().filter(|(_, c)| *c > 0).min_by_key(|(_, c)| *c).map(|(i, _)| Variable(i))
    }
    fn for_each_in_domain(&self, var: Variable, st: &PState, f: &mut dyn DecisionCallback) {
        if st.0 & (1 << var.0) != 0 { f.apply(Decision { variable: var, value: 1 }); }
        f.apply(Decision { variable: var, value: 0 });
    }
    fn is_impacted_by(&self, var: Variable, st: &PState) -> bool { st.0 & (1 << var.0) != 0 }
}
pub struct PRelax(pub Arc<PInst>);
impl Relaxation for PRelax {
    type State = PState;
    fn merge(&self, states: &mut dyn Iterator<Item = &PState>) -> PState {
        let mut m = 0;
        for s in states { m |= s.0; }
        PState(m)
    }
    fn relax(&self, _s: &PState, _d: &PState, _m: &PState, _dec: Decision, cost: isize) -> isize { cost }
    fn fast_upper_bound(&self, st: &PState) -> isize {
        match self.0.variant.rub {
            RubKind::None => isize::MAX,
            RubKind::Exact => self.0.f[st.0 as usize],
            RubKind::Slack(seed) => if hash2(st, &seed) % 2 == 0 { self.0.sumw(st.0) } else { self.0.f[st.0 as usize] + (hash2(st, &seed) % 3) as isize },
        }
    }
}
pub struct PRank(pub Arc<PInst>);
impl StateRanking for PRank {
    type State = PState;
    fn compare(&self, a: &PState, b: &PState) -> Ordering {
        match self.0.variant.rank {
            RankKind::Natural => a.0.count_ones().cmp(&b.0.count_ones()).then_with(|| a.0.cmp(&b.0)),
            RankKind::Reverse => b.0.cmp(&a.0),
            RankKind::Random(seed) => hash2(a, &seed).cmp(&hash2(b, &seed)),
            RankKind::Flat => Ordering::Equal,
        }
    }
}
impl Oracle<PState> for PInst {
    fn nvars(&self) -> usize { self.n }
    fn optimum(&self) -> Option<isize> { Some(self.f[(1usize << self.n) - 1]) }
    fn hstar(&self, s: &PState, _depth: usize) -> Option<isize> { self.f.get(s.0 as usize).copied() }
    fn replay(&self, path: &[Decision], depth: Option<usize>) -> Result<Replayed<PState>, String> {
        if let Some(d) = depth {
            if d > self.n { return Err(format!("depth {d} exceeds the number of variables")); }
            if path.len() > d { return Err(format!("{} decisions for a sub-problem at depth {d}", path.len())); }
        }
        let mut seen = 0u32;
        let mut mask = (1u32 << self.n) - 1;
        let mut value = 0;
        for d in path {
            let v = d.variable.0;
            if v >= self.n { return Err(format!("unknown variable {v}")); }
            if seen & (1 << v) != 0 { return Err(format!("two decisions for variable {v}")); }
            seen |= 1 << v;
            match d.value {
                0 => { mask &= !(1 << v); }
                1 => {
                    if mask & (1 << v) == 0 { return Err(format!("value 1 not in the domain of variable {v}: the item is no longer eligible")); }
                    mask &= !(1 << v);
                    mask &= !self.adj[v];
                    value += self.weight[v];
                }
                x => return Err(format!("value {x} not in the domain of variable {v}")),
            }
        }
        if depth.is_none() && mask != 0 {
            // a complete solution decides (explicitly or implicitly) every item: the implicit ones are not selected
            mask = 0;
        }
        Ok(Replayed { state: PState(mask), value })
    }
    fn static_var_at(&self, _depth: usize) -> Option<Variable> { None }
    fn is_static_order(&self) -> bool { false }
    fn all_impacted(&self) -> bool { false }
    fn depth_in_state(&self) -> bool { false }
}
impl Fam for PInst {
    type S = PState;
    type Relax = PRelax;
    type Rank = PRank;
    fn family() -> &'static str { "P" }
    fn generate(seed: u64, size: u32, variant: Variant) -> Self {
        let mut v = variant;
        v.dom = super::DomKind::None;
        PInst::build(seed, size, v)
    }
    fn variant(&self) -> Variant { self.variant }
    fn mk_relax(self: &Arc<Self>) -> PRelax { PRelax(self.clone()) }
    fn mk_rank(self: &Arc<Self>) -> PRank { PRank(self.clone()) }
    fn mk_dominance(self: &Arc<Self>) -> Option<Box<dyn DominanceChecker<State = PState> + Send + Sync>> { None }
    fn describe(&self) -> J {
        J::obj().set("family", J::s("P")).set("gen_seed", J::Int(self.gen.0 as i64)).set("gen_size", J::i(self.gen.1))
            .set("n", J::i(self.n)).set("conflict_masks", J::ints(&self.adj)).set("weight", J::ints(&self.weight))
            .set("variant", self.variant.json()).set("optimum", J::isz(self.f[(1usize << self.n) - 1]))
    }
    fn ihash(&self) -> u64 { hash_of(&(&self.adj, &self.weight)) }
    fn supports_dominance(&self) -> bool { false }
}
