//! Family T: table driven layered DP with a powerset relaxation and a
//! "deferred bonus" that makes the arc relaxation non trivial.
//!
//! * `L` layers, `S` base states, domain `0..D`. At depth `l` the variable is
//!   `order[l]`. `next[l][s][v]` (-1 = infeasible), `cost[l][s][v]`,
//!   `bon[l][s][v] >= 0`.
//! * A DD state is a *set* of base states (bit mask) plus an accumulated
//!   bonus which is cashed on the last transition. Exact states are singletons.
//! * transition = union of images; arc cost = max over the members for which
//!   the decision is feasible; the bonus increases by the max increment;
//!   on the last layer the arc cost also pays the accumulated bonus.
//! * merge = (union of masks, min bonus); relax = cost + bonus(dst) - bonus(merged):
//!   the part of the bonus which is lost by the merge is paid on the arc. This is
//!   only valid if the library passes the right `dst` and `merged`.
//! * irrelevance (long arcs): base state `s` may ignore the variable of layer
//!   `l`: `is_impacted_by` is false, and if expanded anyway the only decision
//!   is the neutral one (value 0, identity transition, cost 0).
use std::cmp::Ordering;
use std::sync::Arc;

use ddo::*;

use super::{DomKind, Fam, Oracle, RankKind, Replayed, RubKind, Variant, NEG};
use crate::util::{hash2, hash_of, Rng, J};

pub const SZ_GRID: u32 = 0;
pub const SZ_TINY: u32 = 1;
pub const SZ_SMALL: u32 = 2;
pub const SZ_MEDIUM: u32 = 3;
pub const SZ_LARGE: u32 = 4; // 20..32 layers: searches with hundreds / thousands of sub-problems
pub const F_DEPTH_FREE: u32 = 1 << 4;
pub const F_IRRELEVANCE: u32 = 1 << 5; // implies depth free
pub const F_NO_BONUS: u32 = 1 << 6;
pub const F_PERMUTED: u32 = 1 << 7;
pub const F_NO_DEAD_END: u32 = 1 << 8;
pub const F_RECONVERGENT: u32 = 1 << 9; // few base states, no bonus, many ties
pub const F_ABSORBING: u32 = 1 << 10; // absorbing base states (merged state equal to a kept one)
/// deceptive instances: rewards 0..19, a large terminal reward reachable from base state 0 of the last layer only, the
/// loose bound is the sum of the largest rewards of the remaining layers: the optimum is found late, the search keeps
/// hundreds of open sub-problems, most of them invalidated by the cache before they are popped (long stale runs)
pub const F_DECEPTIVE: u32 = 1 << 11;
/// with `F_IRRELEVANCE`: `is_impacted_by` is *conservative* - besides the states with a relevant member, a pseudo-random half
/// of the (layer, state) pairs whose members are all irrelevant also claim to be impacted (always legal: they are expanded with
/// the neutral decision). The merge of such states can then equal a state that waits in the pool of the pooled diagram.
pub const F_CONSERVATIVE: u32 = 1 << 12;
/// "big-M" modelling style: a forbidden decision stays in the domain and costs `isize::MIN` (minus infinity), its successor is
/// the dead state (empty set). Values saturate. Only used by the callback-protocol campaign (C12): the solver-level oracles
/// are not consulted on such instances.
pub const F_BIG_M: u32 = 1 << 13;

#[derive(Clone, PartialEq, Eq, Hash, Debug)]
pub struct TState {
    pub mask: u64,
    pub bonus: isize,
    /// 255 when the state type does not embed the depth
    pub depth: u8,
}

#[derive(Debug)]
pub struct TInst {
    pub l: usize,
    pub s: usize,
    pub d: usize,
    pub order: Vec<usize>,
    pub pos: Vec<usize>,
    pub next: Vec<Vec<Vec<i8>>>,
    pub cost: Vec<Vec<Vec<isize>>>,
    pub bon: Vec<Vec<Vec<isize>>>,
    pub irr: Vec<Vec<bool>>,
    pub s0: usize,
    pub v0: isize,
    pub depth_in_state: bool,
    pub has_irr: bool,
    pub variant: Variant,
    pub gen: (u64, u32),
    /// oracle: value to go of base state s at depth l (bonus increments included)
    pub g: Vec<Vec<Option<isize>>>,
    pub gmax: Vec<Option<isize>>,
    pub deceptive: bool,
    pub conservative: bool,
    pub big_m: bool,
    /// sum over the remaining layers of the largest reward of the layer
    pub suffix_max: Vec<isize>,
}

impl TInst {
    pub fn build(seed: u64, size: u32, variant: Variant) -> TInst {
        let mut rng = Rng::derive(seed, &[0x7, size as u64]);
        let class = size & 0xF;
        let reconv = size & F_RECONVERGENT != 0;
        let (l, s, d, c) = match class {
            SZ_GRID => (3, 2, 2, 1),
            SZ_TINY => (rng.range(3, 6) as usize, rng.range(2, 4) as usize, rng.range(2, 3) as usize, 4),
            SZ_SMALL => (rng.range(5, 9) as usize, rng.range(2, 5) as usize, rng.range(2, 3) as usize, 6),
            SZ_LARGE if size & F_DECEPTIVE != 0 => (rng.range(24, 36) as usize, *rng.pick(&[16usize, 32, 32, 64]), rng.range(2, 3) as usize, 9),
            SZ_LARGE => (rng.range(18, 28) as usize, rng.range(10, 15) as usize, rng.range(2, 3) as usize, 9),
            _ => (rng.range(8, 12) as usize, rng.range(3, 6) as usize, rng.range(2, 4) as usize, 9),
        };
        let (s, c) = if reconv { (rng.range(2, 3) as usize, 2) } else { (s, c) };
        let deceptive = size & F_DECEPTIVE != 0;
        let has_irr = size & F_IRRELEVANCE != 0 && !deceptive;
        let depth_in_state = deceptive || !(has_irr || size & F_DEPTH_FREE != 0);
        // long arcs: skipping a variable must be equivalent to the neutral decision, hence no deferred bonus there
        let no_bonus = size & F_NO_BONUS != 0 || reconv || has_irr || deceptive;
        let dead_den = if size & F_NO_DEAD_END != 0 || deceptive { 0 } else { rng.range(0, 2) as u64 }; // 0: none, else prob 1/(4*den)
        let absorbing = size & F_ABSORBING != 0;
        let mut order: Vec<usize> = (0..l).collect();
        if size & F_PERMUTED != 0 { rng.shuffle(&mut order); }
        let mut pos = vec![0; l];
        for (i, v) in order.iter().enumerate() { pos[*v] = i; }
        let mut next = vec![vec![vec![-1i8; d]; s]; l];
        let mut cost = vec![vec![vec![0isize; d]; s]; l];
        let mut bon = vec![vec![vec![0isize; d]; s]; l];
        let mut irr = vec![vec![false; s]; l];
        let abs_state = if absorbing { Some(rng.usize(s)) } else { None };
        for li in 0..l {
            for si in 0..s {
                // (conservative variant: most (layer, base state) pairs are irrelevant, so that whole states often are)
                if has_irr && rng.chance(if size & F_CONSERVATIVE != 0 { 2 } else { 1 }, 3) {
                    irr[li][si] = true;
                    next[li][si][0] = si as i8;
                    continue;
                }
                for vi in 0..d {
                    if dead_den > 0 && rng.chance(1, 4 * dead_den) { continue; }
                    let mut nx = rng.usize(s);
                    if abs_state == Some(si) && rng.chance(3, 4) { nx = si; }
                    next[li][si][vi] = nx as i8;
                    cost[li][si][vi] = if deceptive { rng.range(0, 19) as isize + if li + 1 == l && si == 0 { 100 } else { 0 } } else { rng.range(-(c as i64), c as i64) as isize };
                    if !no_bonus && rng.chance(1, 4) { bon[li][si][vi] = rng.range(1, 2) as isize; }
                }
            }
        }
        let s0 = rng.usize(s);
        let v0 = rng.range(-3, 3) as isize;
        let mut suffix_max = vec![0isize; l + 1];
        for li in (0..l).rev() {
            let mx = (0..s).flat_map(|si| (0..d).map(move |vi| (si, vi))).filter(|(si, vi)| next[li][*si][*vi] >= 0).map(|(si, vi)| cost[li][si][vi] + bon[li][si][vi]).max().unwrap_or(0);
            suffix_max[li] = suffix_max[li + 1] + mx.max(0);
        }
        let mut inst = TInst { l, s, d, order, pos, next, cost, bon, irr, s0, v0, depth_in_state, has_irr, variant, gen: (seed, size), g: vec![], gmax: vec![], deceptive, conservative: size & F_CONSERVATIVE != 0, big_m: size & F_BIG_M != 0, suffix_max };
        inst.compute_oracle();
        inst
    }
    fn compute_oracle(&mut self) {
        let mut g = vec![vec![None; self.s]; self.l + 1];
        for si in 0..self.s { g[self.l][si] = Some(0); }
        for li in (0..self.l).rev() {
            for si in 0..self.s {
                let mut best: Option<isize> = None;
                for vi in 0..self.d {
                    let nx = self.next[li][si][vi];
                    if nx >= 0 {
                        if let Some(t) = g[li + 1][nx as usize] {
                            let v = self.cost[li][si][vi] + self.bon[li][si][vi] + t;
                            best = Some(best.map_or(v, |b: isize| b.max(v)));
                        }
                    }
                }
                g[li][si] = best;
            }
        }
        let mut gmax = vec![None; self.s];
        for (si, gm) in gmax.iter_mut().enumerate() {
            for gl in g.iter() {
                if let Some(v) = gl[si] { *gm = Some(gm.map_or(v, |b: isize| b.max(v))); }
            }
        }
        self.g = g;
        self.gmax = gmax;
    }
    #[inline]
    fn members(mask: u64) -> impl Iterator<Item = usize> {
        let mut m = mask;
        std::iter::from_fn(move || if m == 0 { None } else { let i = m.trailing_zeros() as usize; m &= m - 1; Some(i) })
    }
    fn depth_byte(&self, d: usize) -> u8 { if self.depth_in_state { d as u8 } else { 255 } }

    /// score used by rough bound / ranking / dominance: bonus + best value to go
    fn score(&self, st: &TState) -> Option<isize> {
        let mut best: Option<isize> = None;
        for si in Self::members(st.mask) {
            let g = if self.depth_in_state { self.g[st.depth as usize][si] } else { self.gmax[si] };
            if let Some(g) = g { best = Some(best.map_or(g, |b: isize| b.max(g))); }
        }
        best.map(|b| b + st.bonus)
    }
}

impl Problem for TInst {
    type State = TState;
    fn nb_variables(&self) -> usize { self.l }
    fn initial_state(&self) -> TState { TState { mask: 1 << self.s0, bonus: 0, depth: self.depth_byte(0) } }
    fn initial_value(&self) -> isize { self.v0 }
    fn transition(&self, st: &TState, dec: Decision) -> TState {
        let li = self.pos[dec.variable.0];
        let v = dec.value as usize;
        let mut mask = 0u64;
        let mut b = 0isize;
        for si in Self::members(st.mask) {
            let nx = self.next[li][si][v];
            if nx >= 0 {
                mask |= 1 << nx;
                b = b.max(self.bon[li][si][v]);
            }
        }
        let bonus = if li + 1 == self.l { 0 } else { st.bonus + b };
        TState { mask, bonus, depth: if self.depth_in_state { (li + 1) as u8 } else { 255 } }
    }
    fn transition_cost(&self, st: &TState, _dst: &TState, dec: Decision) -> isize {
        let li = self.pos[dec.variable.0];
        let v = dec.value as usize;
        let mut c: Option<isize> = None;
        let mut b = 0isize;
        for si in Self::members(st.mask) {
            if self.next[li][si][v] >= 0 {
                c = Some(c.map_or(self.cost[li][si][v], |x: isize| x.max(self.cost[li][si][v])));
                b = b.max(self.bon[li][si][v]);
            }
        }
        let c = c.unwrap_or(if self.big_m { isize::MIN } else { NEG });
        if li + 1 == self.l { c.saturating_add(st.bonus + b) } else { c }
    }
    fn next_variable(&self, depth: usize, _next_layer: &mut dyn Iterator<Item = &TState>) -> Option<Variable> {
        if depth < self.l { Some(Variable(self.order[depth])) } else { None }
    }
    fn for_each_in_domain(&self, var: Variable, st: &TState, f: &mut dyn DecisionCallback) {
        let li = self.pos[var.0];
        for v in 0..self.d {
            if (self.big_m && st.mask != 0) || Self::members(st.mask).any(|si| self.next[li][si][v] >= 0) {
                f.apply(Decision { variable: var, value: v as isize });
            }
        }
    }
    fn is_impacted_by(&self, var: Variable, st: &TState) -> bool {
        if !self.has_irr { return true; }
        let li = self.pos[var.0];
        Self::members(st.mask).any(|si| !self.irr[li][si]) || (self.conservative && hash2(&(li, st.mask), &self.gen.0) % 2 == 0)
    }
}

pub struct TRelax(pub Arc<TInst>);
impl Relaxation for TRelax {
    type State = TState;
    fn merge(&self, states: &mut dyn Iterator<Item = &TState>) -> TState {
        let mut mask = 0u64;
        let mut bonus = isize::MAX;
        let mut depth = 255u8;
        for s in states {
            mask |= s.mask;
            bonus = bonus.min(s.bonus);
            depth = s.depth;
        }
        if bonus == isize::MAX { bonus = 0; }
        TState { mask, bonus, depth }
    }
    fn relax(&self, _src: &TState, dst: &TState, merged: &TState, _d: Decision, cost: isize) -> isize {
        cost.saturating_add(dst.bonus - merged.bonus)
    }
    fn fast_upper_bound(&self, st: &TState) -> isize {
        match self.0.variant.rub {
            RubKind::None => isize::MAX,
            RubKind::Exact => self.0.score(st).unwrap_or(NEG),
            RubKind::Slack(seed) => if self.0.deceptive && seed % 2 == 1 {
                if self.0.score(st).is_none() { NEG } else { st.bonus + self.0.suffix_max[st.depth as usize] }
            } else if seed % 2 == 1 {
                // loose admissible bound: the best value to go of *any* base state (at this depth, or at any depth when unknown)
                let best = |l: usize| self.0.g[l].iter().flatten().copied().max();
                let b = if self.0.depth_in_state { best(st.depth as usize) } else { (0..=self.0.l).filter_map(best).max() };
                b.map(|x| x + st.bonus).unwrap_or(NEG)
            } else { self.0.score(st).map(|x| x + (hash2(st, &seed) % 4) as isize).unwrap_or(NEG) },
        }
    }
}

pub struct TRank(pub Arc<TInst>);
impl StateRanking for TRank {
    type State = TState;
    fn compare(&self, a: &TState, b: &TState) -> Ordering {
        match self.0.variant.rank {
            RankKind::Natural => self.0.score(a).cmp(&self.0.score(b)).then_with(|| a.mask.cmp(&b.mask)).then_with(|| a.bonus.cmp(&b.bonus)),
            RankKind::Reverse => b.mask.cmp(&a.mask).then_with(|| b.bonus.cmp(&a.bonus)),
            RankKind::Random(seed) => hash2(a, &seed).cmp(&hash2(b, &seed)),
            RankKind::Flat => Ordering::Equal,
        }
    }
}

pub struct TDom(pub Arc<TInst>, pub bool);
impl Dominance for TDom {
    type State = TState;
    type Key = u8;
    fn get_key(&self, _state: Arc<TState>) -> Option<u8> { Some(0) }
    fn nb_dimensions(&self, _state: &TState) -> usize { if self.1 { 2 } else { 1 } }
    fn get_coordinate(&self, state: &TState, i: usize) -> isize {
        if i == 0 { self.0.score(state).unwrap_or(NEG) } else { state.mask as isize }
    }
    fn use_value(&self) -> bool { true }
}

impl Oracle<TState> for TInst {
    fn nvars(&self) -> usize { self.l }
    fn optimum(&self) -> Option<isize> { self.g[0][self.s0].map(|g| g + self.v0) }
    fn hstar(&self, st: &TState, depth: usize) -> Option<isize> {
        if st.mask.count_ones() != 1 || depth > self.l { return None; }
        let si = st.mask.trailing_zeros() as usize;
        self.g[depth][si].map(|g| g + st.bonus)
    }
    fn replay(&self, path: &[Decision], depth: Option<usize>) -> Result<Replayed<TState>, String> {
        let target = depth.unwrap_or(self.l);
        if target > self.l { return Err(format!("depth {target} exceeds the number of variables {}", self.l)); }
        let mut by_layer: Vec<Option<isize>> = vec![None; self.l];
        for d in path {
            if d.variable.0 >= self.l { return Err(format!("unknown variable {}", d.variable.0)); }
            let li = self.pos[d.variable.0];
            if by_layer[li].is_some() { return Err(format!("two decisions for variable {}", d.variable.0)); }
            by_layer[li] = Some(d.value);
        }
        let mut st = self.initial_state();
        let mut value = self.v0;
        for (li, dec) in by_layer.iter().enumerate() {
            if li >= target {
                if dec.is_some() { return Err(format!("decision on variable {} which lies at depth {li} >= {target}", self.order[li])); }
                continue;
            }
            let si = st.mask.trailing_zeros() as usize;
            match dec {
                Some(v) => {
                    if *v < 0 || *v as usize >= self.d || self.next[li][si][*v as usize] < 0 {
                        return Err(format!("value {v} not in the domain of variable {} at depth {li} in base state {si}", self.order[li]));
                    }
                    let dec = Decision { variable: Variable(self.order[li]), value: *v };
                    let nst = self.transition(&st, dec);
                    value += self.transition_cost(&st, &nst, dec);
                    st = nst;
                }
                None => {
                    if !(self.has_irr && self.irr[li][si]) {
                        return Err(format!("no decision for variable {} (depth {li}) although base state {si} is impacted by it", self.order[li]));
                    }
                    // neutral decision: identity transition, cost 0 -- but the last layer still cashes the bonus
                    let dec = Decision { variable: Variable(self.order[li]), value: 0 };
                    let nst = self.transition(&st, dec);
                    value += self.transition_cost(&st, &nst, dec);
                    st = nst;
                }
            }
        }
        Ok(Replayed { state: st, value })
    }
    fn static_var_at(&self, depth: usize) -> Option<Variable> { if depth < self.l { Some(Variable(self.order[depth])) } else { None } }
    fn is_static_order(&self) -> bool { true }
    fn all_impacted(&self) -> bool { !self.has_irr }
    fn depth_in_state(&self) -> bool { self.depth_in_state }
}

impl Fam for TInst {
    type S = TState;
    type Relax = TRelax;
    type Rank = TRank;
    fn family() -> &'static str { "T" }
    fn generate(seed: u64, size: u32, variant: Variant) -> Self {
        let mut v = variant;
        let probe = TInst::build(seed, size, variant);
        if !probe.depth_in_state { v.dom = DomKind::None; }
        if v != variant { TInst::build(seed, size, v) } else { probe }
    }
    fn variant(&self) -> Variant { self.variant }
    fn mk_relax(self: &Arc<Self>) -> TRelax { TRelax(self.clone()) }
    fn mk_rank(self: &Arc<Self>) -> TRank { TRank(self.clone()) }
    fn mk_dominance(self: &Arc<Self>) -> Option<Box<dyn DominanceChecker<State = TState> + Send + Sync>> {
        match self.variant.dom {
            DomKind::None => None,
            DomKind::Exact => Some(Box::new(SimpleDominanceChecker::new(TDom(self.clone(), false), self.l))),
            DomKind::Weak => Some(Box::new(SimpleDominanceChecker::new(TDom(self.clone(), true), self.l))),
        }
    }
    fn describe(&self) -> J {
        let tab = |t: &Vec<Vec<Vec<isize>>>| J::Arr(t.iter().map(|a| J::Arr(a.iter().map(|b| J::ints(b)).collect())).collect());
        J::obj()
            .set("family", J::s("T"))
            .set("gen_seed", J::Int(self.gen.0 as i64))
            .set("gen_size", J::i(self.gen.1))
            .set("layers", J::i(self.l)).set("base_states", J::i(self.s)).set("domain", J::i(self.d))
            .set("order", J::ints(&self.order))
            .set("s0", J::i(self.s0)).set("v0", J::isz(self.v0))
            .set("depth_in_state", J::Bool(self.depth_in_state))
            .set("next", J::Arr(self.next.iter().map(|a| J::Arr(a.iter().map(|b| J::ints(b)).collect())).collect()))
            .set("cost", tab(&self.cost))
            .set("bonus", tab(&self.bon))
            .set("irrelevant", J::Arr(self.irr.iter().map(|a| J::Arr(a.iter().map(|b| J::Bool(*b)).collect())).collect()))
            .set("variant", self.variant.json())
            .set("optimum", self.optimum().map_or(J::Null, J::isz))
    }
    fn ihash(&self) -> u64 {
        hash_of(&(&self.next, &self.cost, &self.bon, &self.irr, &self.order, self.s0, self.v0, self.depth_in_state))
    }
    fn supports_dominance(&self) -> bool { self.depth_in_state }
}
