//! Instance families and their oracles (DESIGN §3.2).
//!
//! Every family is well-formed by construction (merge / arc relaxation
//! over-approximate, rough bound and dominance admissible) and comes with an
//! oracle that is independent from the decision-diagram code: explicit
//! backward DP over the instance.
use std::fmt::Debug;
use std::hash::Hash;
use std::sync::Arc;

use ddo::{Decision, DominanceChecker, Problem, Relaxation, StateRanking, Variable};

use crate::util::J;

pub mod tmodel;
pub mod kmodel;
pub mod pmodel;
pub mod qmodel;

/// rough upper bound variants
#[derive(Clone, Copy, Debug, PartialEq, Eq, Hash)]
pub enum RubKind { None, Exact, Slack(u64) }
/// state ranking variants
#[derive(Clone, Copy, Debug, PartialEq, Eq, Hash)]
/// `Flat`: every pair of states compares `Equal` (a legal ranking: many ties among the candidates of a layer)
pub enum RankKind { Natural, Reverse, Random(u64), Flat }
/// dominance variants
#[derive(Clone, Copy, Debug, PartialEq, Eq, Hash)]
pub enum DomKind { None, Exact, Weak }

#[derive(Clone, Copy, Debug, PartialEq, Eq, Hash)]
pub struct Variant { pub rub: RubKind, pub rank: RankKind, pub dom: DomKind }
impl Variant {
    pub fn plain() -> Self { Variant { rub: RubKind::None, rank: RankKind::Natural, dom: DomKind::None } }
    pub fn json(&self) -> J {
        J::obj().set("rub", J::s(format!("{:?}", self.rub))).set("rank", J::s(format!("{:?}", self.rank))).set("dom", J::s(format!("{:?}", self.dom)))
    }
}

pub struct Replayed<S> {
    pub state: S,
    pub value: isize,
}

/// The oracle side of an instance
pub trait Oracle<S>: Send + Sync {
    fn nvars(&self) -> usize;
    /// optimum over all feasible complete decision sequences (None = infeasible)
    fn optimum(&self) -> Option<isize>;
    /// exact value-to-go of an *exact* state sitting at the given depth (None = dead end)
    fn hstar(&self, s: &S, depth: usize) -> Option<isize>;
    /// Replays the decisions of `path` (given in any order) from the problem
    /// root. `depth` = number of variables that are supposed to have been
    /// decided (explicitly or by skipping a variable that is irrelevant for
    /// the state); `None` = a complete solution.
    fn replay(&self, path: &[Decision], depth: Option<usize>) -> Result<Replayed<S>, String>;
    /// variable branched on at the given depth when the order is static
    fn static_var_at(&self, depth: usize) -> Option<Variable>;
    fn is_static_order(&self) -> bool;
    /// true iff every state is impacted by every variable
    fn all_impacted(&self) -> bool;
    /// true iff the state type embeds the depth (same state => same depth)
    fn depth_in_state(&self) -> bool;
}

pub trait Fam: Problem<State = <Self as Fam>::S> + Oracle<<Self as Fam>::S> + Send + Sync + Sized + 'static {
    type S: Clone + Eq + Hash + Debug + Send + Sync + 'static;
    type Relax: Relaxation<State = <Self as Fam>::S> + Send + Sync;
    type Rank: StateRanking<State = <Self as Fam>::S> + Send + Sync;

    fn family() -> &'static str;
    fn generate(seed: u64, size: u32, variant: Variant) -> Self;
    fn variant(&self) -> Variant;
    fn mk_relax(self: &Arc<Self>) -> Self::Relax;
    fn mk_rank(self: &Arc<Self>) -> Self::Rank;
    fn mk_dominance(self: &Arc<Self>) -> Option<Box<dyn DominanceChecker<State = <Self as Fam>::S> + Send + Sync>>;
    /// human readable dump of the instance (goes to replay files and samples)
    fn describe(&self) -> J;
    fn ihash(&self) -> u64;
    /// whether dominance variants are available
    fn supports_dominance(&self) -> bool;
    fn state_json(s: &<Self as Fam>::S) -> J { J::s(format!("{s:?}")) }
}

pub(crate) const NEG: isize = -1_000_000_000;
