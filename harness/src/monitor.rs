//! Recording wrappers and online monitors (DESIGN §3.3).
use std::any::Any;
use std::cell::RefCell;
use std::collections::{BTreeMap, HashMap, HashSet};
use std::fmt::Debug;
use std::hash::Hash;
use std::sync::atomic::{AtomicBool, AtomicIsize, AtomicU64, Ordering as AO};
use std::sync::{Arc, Mutex};

use ddo::*;

use crate::models::Oracle;
use crate::util::{fmt_path, hash_of, path_json, J};

// ---------------------------------------------------------------------------
// violations, counters
// ---------------------------------------------------------------------------
#[derive(Clone, Debug)]
pub struct Violation {
    pub prop: &'static str,
    /// short machine readable name of the clause that failed (part of the known-finding signature)
    pub clause: String,
    pub detail: String,
    /// facts computed by the monitor (part of the known-finding signature)
    pub facts: J,
}

pub const fn bit(p: u32) -> u32 { 1 << p }

pub struct MonCtx<S> {
    pub oracle: Arc<dyn Oracle<S>>,
    pub problem: Arc<dyn Problem<State = S> + Send + Sync>,
    /// bit i set <=> the online checker of property C<i> is active
    pub enabled: u32,
    /// cache and dominance are the empty implementations ("in isolation")
    pub isolated: bool,
    pub ihash: u64,
    pub dd_name: &'static str,
    pub keep_log: bool,
    pub violations: Mutex<Vec<Violation>>,
    pub counters: Mutex<BTreeMap<&'static str, u64>>,
    pub nontrivial: Mutex<BTreeMap<&'static str, HashSet<u64>>>,
    pub last_best_lb: AtomicIsize,
    pub last_was_relaxed: AtomicBool,
}
impl<S> MonCtx<S> {
    pub fn new(oracle: Arc<dyn Oracle<S>>, problem: Arc<dyn Problem<State = S> + Send + Sync>, enabled: u32, isolated: bool, ihash: u64, dd_name: &'static str) -> Self {
        MonCtx {
            oracle, problem, enabled, isolated, ihash, dd_name, keep_log: false,
            violations: Mutex::new(vec![]), counters: Mutex::new(BTreeMap::new()), nontrivial: Mutex::new(BTreeMap::new()),
            last_best_lb: AtomicIsize::new(isize::MIN),
            last_was_relaxed: AtomicBool::new(false),
        }
    }
    pub fn on(&self, p: u32) -> bool { self.enabled & bit(p) != 0 }
    pub fn violate(&self, prop: &'static str, clause: &str, detail: String, facts: J) {
        let mut v = self.violations.lock().unwrap();
        if v.len() < 50 {
            v.push(Violation { prop, clause: clause.to_string(), detail, facts: facts.set("dd", J::s(self.dd_name)) });
        }
    }
    pub fn bump(&self, name: &'static str, n: u64) {
        if n > 0 { *self.counters.lock().unwrap().entry(name).or_insert(0) += n; }
    }
    pub fn nontrivial(&self, prop: &'static str, h: u64) {
        self.nontrivial.lock().unwrap().entry(prop).or_default().insert(h);
    }
}

static CTX: Mutex<Option<Arc<dyn Any + Send + Sync>>> = Mutex::new(None);
thread_local! {
    /// true while this thread runs a *restricted* compilation (MonDD::compile)
    pub static IN_RESTRICTED: std::cell::Cell<bool> = const { std::cell::Cell::new(false) };
}
pub fn set_ctx<S: Send + Sync + 'static>(ctx: Option<Arc<MonCtx<S>>>) {
    *CTX.lock().unwrap() = ctx.map(|c| c as Arc<dyn Any + Send + Sync>);
}
pub fn get_ctx<S: Send + Sync + 'static>() -> Option<Arc<MonCtx<S>>> {
    let g = CTX.lock().unwrap().clone();
    g.and_then(|a| a.downcast::<MonCtx<S>>().ok())
}

// ---------------------------------------------------------------------------
// recording wrappers around Problem / Relaxation
// ---------------------------------------------------------------------------
#[derive(Clone, Debug)]
pub enum Ev<S> {
    NextVar { depth: usize, layer: Vec<S>, var: Option<Variable> },
    Impacted { var: Variable, state: S, res: bool },
    ForEachBegin { var: Variable, state: S },
    Emit(Decision),
    ForEachEnd,
    Transition { src: S, dec: Decision, dst: S },
    Cost { src: S, dst: S, dec: Decision, cost: isize },
    Merge { inputs: Vec<S>, merged: S },
    Relax { src: S, dst: S, merged: S, dec: Decision, cost: isize, rcost: isize },
    Rub { state: S, rub: isize },
}

pub struct RecProblem<'a, S> {
    pub inner: &'a dyn Problem<State = S>,
    pub log: &'a RefCell<Vec<Ev<S>>>,
}
impl<S: Clone> Problem for RecProblem<'_, S> {
    type State = S;
    fn nb_variables(&self) -> usize { self.inner.nb_variables() }
    fn initial_state(&self) -> S { self.inner.initial_state() }
    fn initial_value(&self) -> isize { self.inner.initial_value() }
    fn transition(&self, state: &S, decision: Decision) -> S {
        let dst = self.inner.transition(state, decision);
        self.log.borrow_mut().push(Ev::Transition { src: state.clone(), dec: decision, dst: dst.clone() });
        dst
    }
    fn transition_cost(&self, source: &S, dest: &S, decision: Decision) -> isize {
        let cost = self.inner.transition_cost(source, dest, decision);
        self.log.borrow_mut().push(Ev::Cost { src: source.clone(), dst: dest.clone(), dec: decision, cost });
        cost
    }
    fn next_variable(&self, depth: usize, next_layer: &mut dyn Iterator<Item = &S>) -> Option<Variable> {
        let layer: Vec<S> = next_layer.cloned().collect();
        let var = self.inner.next_variable(depth, &mut layer.iter());
        self.log.borrow_mut().push(Ev::NextVar { depth, layer, var });
        var
    }
    fn for_each_in_domain(&self, var: Variable, state: &S, f: &mut dyn DecisionCallback) {
        self.log.borrow_mut().push(Ev::ForEachBegin { var, state: state.clone() });
        self.inner.for_each_in_domain(var, state, &mut |d: Decision| {
            self.log.borrow_mut().push(Ev::Emit(d));
            f.apply(d);
        });
        self.log.borrow_mut().push(Ev::ForEachEnd);
    }
    fn is_impacted_by(&self, var: Variable, state: &S) -> bool {
        let res = self.inner.is_impacted_by(var, state);
        self.log.borrow_mut().push(Ev::Impacted { var, state: state.clone(), res });
        res
    }
}
pub struct RecRelax<'a, S> {
    pub inner: &'a dyn Relaxation<State = S>,
    pub log: &'a RefCell<Vec<Ev<S>>>,
}
impl<S: Clone> Relaxation for RecRelax<'_, S> {
    type State = S;
    fn merge(&self, states: &mut dyn Iterator<Item = &S>) -> S {
        let inputs: Vec<S> = states.cloned().collect();
        let merged = self.inner.merge(&mut inputs.iter());
        self.log.borrow_mut().push(Ev::Merge { inputs, merged: merged.clone() });
        merged
    }
    fn relax(&self, source: &S, dest: &S, new: &S, decision: Decision, cost: isize) -> isize {
        let rcost = self.inner.relax(source, dest, new, decision, cost);
        self.log.borrow_mut().push(Ev::Relax { src: source.clone(), dst: dest.clone(), merged: new.clone(), dec: decision, cost, rcost });
        rcost
    }
    fn fast_upper_bound(&self, state: &S) -> isize {
        let rub = self.inner.fast_upper_bound(state);
        self.log.borrow_mut().push(Ev::Rub { state: state.clone(), rub });
        rub
    }
}

// ---------------------------------------------------------------------------
// MonDD
// ---------------------------------------------------------------------------
#[derive(Clone, Debug)]
pub struct CompileInfo<S> {
    pub comp_type: CompilationType,
    pub r_state: Arc<S>,
    pub r_value: isize,
    pub r_depth: usize,
    pub r_path: Vec<Decision>,
    pub best_lb: isize,
    pub max_width: usize,
    pub is_exact: bool,
    pub best_value: Option<isize>,
    pub best_exact_value: Option<isize>,
    pub merges: usize,
    pub truncated: bool,
}

pub struct MonDD<D: DecisionDiagram> {
    pub inner: D,
    pub info: Option<CompileInfo<D::State>>,
    pub last_log: Option<Vec<Ev<D::State>>>,
}
impl<D: DecisionDiagram + Default> Default for MonDD<D> {
    fn default() -> Self { MonDD { inner: D::default(), info: None, last_log: None } }
}

fn ct_name(c: CompilationType) -> &'static str {
    match c { CompilationType::Exact => "exact", CompilationType::Relaxed => "relaxed", CompilationType::Restricted => "restricted" }
}

impl<D> DecisionDiagram for MonDD<D>
where
    D: DecisionDiagram,
    D::State: Clone + Eq + Hash + Debug + Send + Sync + 'static,
{
    type State = D::State;

    fn compile(&mut self, input: &CompilationInput<Self::State>) -> Result<Completion, Reason> {
        let ctx = match get_ctx::<D::State>() {
            None => return self.inner.compile(input),
            Some(c) => c,
        };
        let prev_lb = ctx.last_best_lb.swap(input.best_lb, AO::Relaxed);
        if input.best_lb > prev_lb {
            ctx.bump("incumbent_improvements_seen_by_compilations", 1);
            if ctx.last_was_relaxed.load(AO::Relaxed) { ctx.bump("incumbent_improvements_after_a_relaxed_compilation", 1); }
        }
        ctx.last_was_relaxed.store(input.comp_type == CompilationType::Relaxed, AO::Relaxed);
        let log = RefCell::new(Vec::new());
        let res = {
            let rp = RecProblem { inner: input.problem, log: &log };
            let rr = RecRelax { inner: input.relaxation, log: &log };
            let inp = CompilationInput {
                comp_type: input.comp_type, problem: &rp, relaxation: &rr, ranking: input.ranking, cutoff: input.cutoff,
                max_width: input.max_width, residual: input.residual, best_lb: input.best_lb, cache: input.cache, dominance: input.dominance,
            };
            // which kind of compilation this thread is in: read by the dominance wrapper (queries issued by restricted
            // compilations are counted: a fact of the C10 verdicts)
            let prev = IN_RESTRICTED.with(|c| c.replace(input.comp_type == CompilationType::Restricted));
            let r = self.inner.compile(&inp);
            IN_RESTRICTED.with(|c| c.set(prev));
            r
        };
        let log = log.into_inner();
        if std::env::var("VH_TRACE").is_ok() {
            eprintln!("[{:?}] COMPILE {:?} root={:?} depth={} value={} w={} best_lb={} -> {:?} is_exact={} best={:?} best_exact={:?}", std::thread::current().id(), input.comp_type, input.residual.state, input.residual.depth, input.residual.value, input.max_width, input.best_lb, res.as_ref().map(|c| (c.is_exact, c.best_value)).ok(), self.inner.is_exact(), self.inner.best_value(), self.inner.best_exact_value());
            if std::env::var("VH_TRACE").map_or(false, |v| v == "2") { for e in &log { match e { Ev::NextVar { depth, layer, var } => eprintln!("  layer depth={depth} var={var:?} states={layer:?}"), Ev::Cost { src, dst, dec, cost } => eprintln!("    arc {src:?} --{}={}--> {dst:?} cost {cost}", dec.variable.0, dec.value), Ev::Merge { inputs, merged } => eprintln!("    merge {inputs:?} -> {merged:?}"), Ev::Rub { state, rub } => eprintln!("    rub {state:?} = {rub}"), _ => {} } } }
        }
        self.info = None;
        let ct = input.comp_type;
        ctx.bump(match ct { CompilationType::Exact => "compile_exact", CompilationType::Relaxed => "compile_relaxed", CompilationType::Restricted => "compile_restricted" }, 1);
        // --- protocol / width checks work on the log, also for an interrupted compilation
        let stats = check_protocol(&ctx, input, &log);
        match &res {
            Err(_) => { ctx.bump("compile_cutoff", 1); }
            Ok(completion) => {
                let info = CompileInfo {
                    comp_type: ct,
                    r_state: input.residual.state.clone(),
                    r_value: input.residual.value,
                    r_depth: input.residual.depth,
                    r_path: input.residual.path.clone(),
                    best_lb: input.best_lb,
                    max_width: input.max_width,
                    is_exact: self.inner.is_exact(),
                    best_value: self.inner.best_value(),
                    best_exact_value: self.inner.best_exact_value(),
                    merges: stats.merges,
                    truncated: stats.truncated,
                };
                if ctx.isolated {
                    self.check_bounds(&ctx, &info, completion);
                }
                self.info = Some(info);
            }
        }
        if ctx.keep_log { self.last_log = Some(log); }
        res
    }
    fn is_exact(&self) -> bool { self.inner.is_exact() }
    fn best_value(&self) -> Option<isize> { self.inner.best_value() }
    fn best_solution(&self) -> Option<Solution> { self.inner.best_solution() }
    fn best_exact_value(&self) -> Option<isize> { self.inner.best_exact_value() }
    fn best_exact_solution(&self) -> Option<Solution> { self.inner.best_exact_solution() }
    fn drain_cutset<F>(&mut self, mut func: F)
    where F: FnMut(SubProblem<Self::State>) {
        let ctx = get_ctx::<D::State>();
        let check = ctx.as_ref().map_or(false, |c| c.isolated && c.on(8)) && self.info.is_some();
        if !check {
            self.inner.drain_cutset(func);
            return;
        }
        let mut handed = vec![];
        self.inner.drain_cutset(|sp| { handed.push(sp.clone()); func(sp); });
        let ctx = ctx.unwrap();
        let info = self.info.clone().unwrap();
        check_cutset(&ctx, &info, &handed);
    }
}

fn opt_of<S>(ctx: &MonCtx<S>, state: &S, value: isize, depth: usize) -> Option<isize> {
    ctx.oracle.hstar(state, depth).map(|h| h + value)
}
fn extends(sol: &[Decision], prefix: &[Decision]) -> bool {
    prefix.iter().all(|d| sol.iter().any(|x| x == d))
}

impl<D> MonDD<D>
where
    D: DecisionDiagram,
    D::State: Clone + Eq + Hash + Debug + Send + Sync + 'static,
{
    fn check_bounds(&self, ctx: &MonCtx<D::State>, info: &CompileInfo<D::State>, completion: &Completion) {
        let opt_r = opt_of(ctx, info.r_state.as_ref(), info.r_value, info.r_depth);
        let l = info.best_lb;
        let beats = opt_r.map_or(false, |o| o > l);
        let facts = || J::obj()
            .set("comp_type", J::s(ct_name(info.comp_type)))
            .set("root_state", J::s(format!("{:?}", info.r_state)))
            .set("root_value", J::isz(info.r_value)).set("root_depth", J::i(info.r_depth))
            .set("root_path", path_json(&info.r_path))
            .set("max_width", J::i(info.max_width)).set("incumbent", J::isz(info.best_lb))
            .set("sub_problem_optimum", opt_r.map_or(J::Null, J::isz))
            .set("is_exact", J::Bool(info.is_exact))
            .set("best_value", info.best_value.map_or(J::Null, J::isz))
            .set("best_exact_value", info.best_exact_value.map_or(J::Null, J::isz))
            .set("merges", J::i(info.merges));
        let case_hash = hash_of(&(ctx.ihash, ctx.dd_name, format!("{:?}", info.r_state), info.r_depth, info.r_value, info.max_width, info.best_lb, ct_name(info.comp_type)));
        match info.comp_type {
            CompilationType::Relaxed if ctx.on(6) => {
                let p = "C06";
                if completion.is_exact != info.is_exact || completion.best_value != info.best_value {
                    ctx.violate(p, "completion_disagrees", format!("Completion {{is_exact: {}, best_value: {:?}}} disagrees with the accessors", completion.is_exact, completion.best_value), facts());
                }
                if beats {
                    let o = opt_r.unwrap();
                    match info.best_value {
                        None => ctx.violate(p, "relaxed_bound_missing", format!("relaxed DD reports no value although the sub-problem optimum {o} beats the incumbent {l}"), facts()),
                        Some(v) if v < o => ctx.violate(p, "relaxed_bound_below_opt", format!("relaxed DD reports {v} < sub-problem optimum {o} (incumbent {l})"), facts()),
                        _ => {}
                    }
                }
                if info.is_exact {
                    if let Some(e) = info.best_exact_value {
                        if opt_r.map_or(true, |o| e > o) {
                            ctx.violate(p, "exact_value_above_opt", format!("relaxed DD claims exactness with best exact value {e} above the sub-problem optimum {opt_r:?}"), facts());
                        }
                        match self.inner.best_exact_solution() {
                            None => ctx.violate(p, "exact_solution_missing", format!("relaxed DD claims exactness with value {e} but has no best exact solution"), facts()),
                            Some(sol) => match ctx.oracle.replay(&sol, None) {
                                Err(msg) => ctx.violate(p, "exact_solution_infeasible", format!("best exact solution [{}] is infeasible: {msg}", fmt_path(&sol)), facts()),
                                Ok(r) => {
                                    if r.value != e { ctx.violate(p, "exact_solution_value", format!("best exact solution [{}] replays to {} but {e} is reported", fmt_path(&sol), r.value), facts()); }
                                    if !extends(&sol, &info.r_path) { ctx.violate(p, "exact_solution_not_completion", format!("best exact solution [{}] does not extend the path of the sub-problem [{}]", fmt_path(&sol), fmt_path(&info.r_path)), facts()); }
                                }
                            },
                        }
                    }
                    if beats && info.best_exact_value != opt_r {
                        ctx.violate(p, "exact_but_not_optimal", format!("relaxed DD claims exactness, the sub-problem optimum {:?} beats the incumbent {l}, but the best exact value is {:?}", opt_r, info.best_exact_value), facts());
                    }
                    if info.merges > 0 { ctx.bump("c06_exact_through_best_path_rule", 1); }
                }
                if info.merges > 0 { ctx.nontrivial(p, case_hash); }
            }
            CompilationType::Restricted | CompilationType::Exact if ctx.on(7) => {
                let p = "C07";
                let exact_mode = info.comp_type == CompilationType::Exact;
                if let Some(v) = info.best_value {
                    if opt_r.map_or(true, |o| v > o) {
                        ctx.violate(p, "value_above_opt", format!("{} DD reports {v} above the sub-problem optimum {opt_r:?}", ct_name(info.comp_type)), facts());
                    }
                    match self.inner.best_solution() {
                        None => ctx.violate(p, "solution_missing", format!("{} DD reports value {v} but no solution", ct_name(info.comp_type)), facts()),
                        Some(sol) => match ctx.oracle.replay(&sol, None) {
                            Err(msg) => ctx.violate(p, "solution_infeasible", format!("best solution [{}] is infeasible: {msg}", fmt_path(&sol)), facts()),
                            Ok(r) => {
                                if r.value != v { ctx.violate(p, "solution_value", format!("best solution [{}] replays to {} but {v} is reported", fmt_path(&sol), r.value), facts()); }
                                if !extends(&sol, &info.r_path) { ctx.violate(p, "solution_not_completion", format!("best solution [{}] does not extend the path of the sub-problem", fmt_path(&sol)), facts()); }
                            }
                        },
                    }
                }
                if (exact_mode || info.is_exact) && beats && info.best_value != opt_r {
                    ctx.violate(p, if exact_mode { "exact_mode_not_optimal" } else { "restricted_exact_not_optimal" },
                        format!("{} DD (is_exact={}) reports {:?} but the sub-problem optimum {:?} beats the incumbent {l}", ct_name(info.comp_type), info.is_exact, info.best_value, opt_r), facts());
                }
                if info.truncated || exact_mode { ctx.nontrivial(p, case_hash); }
            }
            _ => {}
        }
    }
}

// ---------------------------------------------------------------------------
// C08: cut-set checks
// ---------------------------------------------------------------------------
fn check_cutset<S>(ctx: &MonCtx<S>, info: &CompileInfo<S>, handed: &[SubProblem<S>])
where S: Clone + Eq + Hash + Debug + Send + Sync + 'static {
    if info.comp_type != CompilationType::Relaxed || info.is_exact { return; }
    let p = "C08";
    let l = info.best_lb;
    let opt_r = opt_of(ctx, info.r_state.as_ref(), info.r_value, info.r_depth);
    let facts = |c: Option<&SubProblem<S>>| {
        let mut f = J::obj()
            .set("root_state", J::s(format!("{:?}", info.r_state)))
            .set("root_value", J::isz(info.r_value)).set("root_depth", J::i(info.r_depth))
            .set("root_path", path_json(&info.r_path))
            .set("max_width", J::i(info.max_width)).set("incumbent", J::isz(info.best_lb))
            .set("sub_problem_optimum", opt_r.map_or(J::Null, J::isz))
            .set("best_exact_value", info.best_exact_value.map_or(J::Null, J::isz))
            .set("cutset_size", J::i(handed.len()));
        if let Some(c) = c {
            f = f.set("node_state", J::s(format!("{:?}", c.state))).set("node_value", J::isz(c.value)).set("node_depth", J::i(c.depth))
                .set("node_ub", J::isz(c.ub)).set("node_path", path_json(&c.path))
                .set("node_is_root", J::Bool(c.state.as_ref() == info.r_state.as_ref() && c.value == info.r_value));
        }
        f
    };
    ctx.bump("c08_cutsets", 1);
    ctx.bump("c08_cutset_nodes", handed.len() as u64);
    let mut long_arc = false;
    for c in handed {
        // (i) exact
        match ctx.oracle.replay(&c.path, Some(c.depth)) {
            Err(msg) => ctx.violate(p, "i_path_infeasible", format!("cut-set node path [{}] (depth {}) is not a feasible prefix: {msg}", fmt_path(&c.path), c.depth), facts(Some(c))),
            Ok(r) => {
                if &r.state != c.state.as_ref() { ctx.violate(p, "i_state_mismatch", format!("path [{}] leads to {:?} but the cut-set node holds {:?}", fmt_path(&c.path), r.state, c.state), facts(Some(c))); }
                if r.value != c.value { ctx.violate(p, "i_value_mismatch", format!("path [{}] has value {} but the cut-set node reports {}", fmt_path(&c.path), r.value, c.value), facts(Some(c))); }
            }
        }
        if c.path.len() < c.depth { long_arc = true; }
        // (ii) progress
        if c.depth <= info.r_depth {
            ctx.violate(p, "ii_not_deeper", format!("cut-set node at depth {} is not strictly deeper than the sub-problem the diagram was compiled for (depth {})", c.depth, info.r_depth), facts(Some(c)));
        }
        // (iii) bound
        if let Some(o) = opt_of(ctx, c.state.as_ref(), c.value, c.depth) {
            if o > l && c.ub < o {
                ctx.violate(p, "iii_ub_below_completion", format!("cut-set node ub {} is below its best completion {o} which beats the incumbent {l}", c.ub), facts(Some(c)));
            }
        }
    }
    if long_arc { ctx.bump("c08_cutsets_with_long_arcs", 1); }
    // (iv) coverage
    let thr = l.max(info.best_exact_value.unwrap_or(isize::MIN));
    if ctx.oracle.is_static_order() {
        let cut: HashSet<(S, usize)> = handed.iter().map(|c| (c.state.as_ref().clone(), c.depth)).collect();
        let mut budget = 200_000usize;
        let mut path = vec![];
        match uncovered(ctx, info.r_state.as_ref(), info.r_depth, info.r_value, thr, &cut, &mut path, &mut budget, true) {
            Ok(Some((w, val))) => ctx.violate(p, "iv_uncovered_completion", format!("completion [{}] of the sub-problem has value {val} > max(incumbent {l}, best exact value {:?}) but visits no handed-out cut-set node", fmt_path(&w), info.best_exact_value), facts(None).set("witness", path_json(&w))),
            Ok(None) => { ctx.bump("c08_coverage_enumerations", 1); }
            Err(()) => { ctx.bump("c08_coverage_budget_exhausted", 1); }
        }
    } else if let Some(o) = opt_r {
        if o > thr {
            let best = handed.iter().filter_map(|c| opt_of(ctx, c.state.as_ref(), c.value, c.depth)).max();
            if best.map_or(true, |b| b < o) {
                ctx.violate(p, "iv_uncovered_value", format!("sub-problem optimum {o} beats max(incumbent {l}, best exact value {:?}) but the best completion through the cut-set is {best:?}", info.best_exact_value), facts(None));
            }
            ctx.bump("c08_coverage_value_checks", 1);
        }
    }
    if handed.len() >= 2 {
        ctx.nontrivial(p, hash_of(&(ctx.ihash, ctx.dd_name, format!("{:?}", info.r_state), info.r_depth, info.r_value, info.max_width, info.best_lb)));
    }
}

#[allow(clippy::too_many_arguments)]
fn uncovered<S>(ctx: &MonCtx<S>, state: &S, depth: usize, value: isize, thr: isize, cut: &HashSet<(S, usize)>, path: &mut Vec<Decision>, budget: &mut usize, is_root: bool) -> Result<Option<(Vec<Decision>, isize)>, ()>
where S: Clone + Eq + Hash + Debug {
    if *budget == 0 { return Err(()); }
    *budget -= 1;
    match ctx.oracle.hstar(state, depth) {
        None => return Ok(None),
        Some(h) => if value + h <= thr { return Ok(None); },
    }
    if !is_root && cut.contains(&(state.clone(), depth)) { return Ok(None); }
    if is_root && cut.contains(&(state.clone(), depth)) { return Ok(None); }
    match ctx.oracle.static_var_at(depth) {
        None => Ok(Some((path.clone(), value))),
        Some(var) => {
            if !ctx.problem.is_impacted_by(var, state) {
                return uncovered(ctx, state, depth + 1, value, thr, cut, path, budget, false);
            }
            let mut decs = vec![];
            ctx.problem.for_each_in_domain(var, state, &mut |d: Decision| decs.push(d));
            for d in decs {
                let ns = ctx.problem.transition(state, d);
                let c = ctx.problem.transition_cost(state, &ns, d);
                path.push(d);
                let r = uncovered(ctx, &ns, depth + 1, value + c, thr, cut, path, budget, false)?;
                path.pop();
                if r.is_some() { return Ok(r); }
            }
            Ok(None)
        }
    }
}

// ---------------------------------------------------------------------------
// C12 / C13: protocol and width checks over the recorded callbacks
// ---------------------------------------------------------------------------
pub struct LogStats { pub merges: usize, pub truncated: bool, pub relax_calls: usize }

fn check_protocol<S>(ctx: &MonCtx<S>, input: &CompilationInput<S>, log: &[Ev<S>]) -> LogStats
where S: Clone + Eq + Hash + Debug + Send + Sync + 'static {
    let c12 = ctx.on(12);
    let c13 = ctx.on(13) && ctx.oracle.all_impacted();
    let ct = input.comp_type;
    let mut stats = LogStats { merges: 0, truncated: false, relax_calls: 0 };
    let facts = |k: usize| J::obj()
        .set("comp_type", J::s(ct_name(ct)))
        .set("root_state", J::s(format!("{:?}", input.residual.state)))
        .set("root_depth", J::i(input.residual.depth)).set("root_path", path_json(&input.residual.path))
        .set("max_width", J::i(input.max_width)).set("incumbent", J::isz(input.best_lb)).set("layer_index", J::i(k));
    type Key<S> = (S, usize, isize);
    let mut emitted: HashSet<Key<S>> = HashSet::new();
    let mut trans: HashMap<Key<S>, S> = HashMap::new();
    let mut arc_cost: HashMap<Key<S>, isize> = HashMap::new();
    let mut ambiguous: HashSet<Key<S>> = HashSet::new();
    let mut k: usize = 0; // number of NextVar seen
    let mut cur_var: Option<Variable> = None;
    let mut layer: HashSet<S> = HashSet::new();
    let mut layer_len = 0usize;
    let mut last_merge: Option<(&Vec<S>, &S)> = None;
    let mut foreach: Option<(Variable, &S)> = None;
    let mut expansions = 0usize;
    let mut nonid = 0u64;
    let mut layers_over_width = 0u64;
    let mut not_impacted = 0u64;
    let mut total_expansions = 0u64;
    let p12 = "C12";
    let mut width_check = |k: usize, expansions: usize, layer_len: usize| {
        if k == 0 { return; }
        let li = k - 1; // index of the layer that was just expanded
        if layer_len > input.max_width && ct != CompilationType::Exact { layers_over_width += 1; }
        if !c13 { return; }
        let applies = match ct {
            CompilationType::Restricted => true,
            CompilationType::Relaxed => li >= 2,
            CompilationType::Exact => false,
        };
        if applies && expansions > input.max_width {
            ctx.violate("C13", "width_exceeded", format!("{expansions} states expanded in layer {li} of a {} compilation with max_width {}", ct_name(ct), input.max_width), facts(li).set("expansions", J::i(expansions)));
        }
    };
    if c12 {
        // the depth announced for the sub-problem (which is the depth handed to next_variable for its first layer) must be the
        // number of layers between the problem root and that layer: the path of the sub-problem, replayed on the model with
        // that many variables decided (explicitly, or skipped where irrelevant), must lead to its state
        match ctx.oracle.replay(&input.residual.path, Some(input.residual.depth)) {
            Err(msg) => ctx.violate(p12, "subproblem_depth_inconsistent", format!("the sub-problem is announced at depth {} (handed to next_variable) but its path [{}] does not fit that depth: {msg}", input.residual.depth, fmt_path(&input.residual.path)), facts(0)),
            Ok(r) => if &r.state != input.residual.state.as_ref() {
                ctx.violate(p12, "subproblem_depth_inconsistent", format!("the sub-problem is announced at depth {} (handed to next_variable) but replaying its path [{}] over that many layers leads to {:?}, not to its state {:?}", input.residual.depth, fmt_path(&input.residual.path), r.state, input.residual.state), facts(0));
            },
        }
    }
    for ev in log {
        match ev {
            Ev::NextVar { depth, layer: states, var } => {
                width_check(k, expansions, layer_len);
                if c12 && *depth != input.residual.depth + k {
                    ctx.violate(p12, "next_variable_depth", format!("next_variable called with depth {depth} for layer #{k} of a sub-problem rooted at depth {}", input.residual.depth), facts(k));
                }
                k += 1;
                cur_var = *var;
                layer = states.iter().cloned().collect();
                layer_len = states.len();
                last_merge = None;
                expansions = 0;
            }
            Ev::Impacted { res, .. } => { if !*res { not_impacted += 1; } }
            Ev::Rub { .. } => {}
            Ev::ForEachBegin { var, state } => {
                expansions += 1;
                total_expansions += 1;
                foreach = Some((*var, state));
                if c12 {
                    if Some(*var) != cur_var {
                        ctx.violate(p12, "domain_wrong_variable", format!("for_each_in_domain called with {var:?} while next_variable selected {cur_var:?} for this layer"), facts(k.saturating_sub(1)));
                    }
                    let in_layer = layer.contains(state) || last_merge.map_or(false, |(_, m)| m == state);
                    if !in_layer {
                        ctx.violate(p12, "domain_foreign_state", format!("for_each_in_domain called on {state:?} which is not a state of the current layer"), facts(k.saturating_sub(1)));
                    }
                }
            }
            Ev::Emit(d) => {
                if let Some((_, st)) = foreach { emitted.insert(((*st).clone(), d.variable.0, d.value)); }
            }
            Ev::ForEachEnd => { foreach = None; }
            Ev::Transition { src, dec, dst } => {
                let key = (src.clone(), dec.variable.0, dec.value);
                if trans.contains_key(&key) { ambiguous.insert(key.clone()); }
                trans.insert(key, dst.clone());
                if c12 {
                    // the library has no reason to compute a transition for a decision the model did not emit
                    if !emitted.contains(&(src.clone(), dec.variable.0, dec.value)) {
                        ctx.violate(p12, "transition_not_in_domain", format!("transition({src:?}, {dec:?}) although the model did not emit this decision for that state"), facts(k.saturating_sub(1)));
                    }
                }
            }
            Ev::Cost { src, dst, dec, cost } => {
                let key = (src.clone(), dec.variable.0, dec.value);
                if c12 {
                    if !emitted.contains(&key) {
                        ctx.violate(p12, "cost_not_in_domain", format!("transition_cost({src:?}, {dst:?}, {dec:?}): the decision is not in the domain of its variable at src"), facts(k.saturating_sub(1)));
                    } else {
                        let expect = ctx.problem.transition(src, *dec);
                        if &expect != dst {
                            ctx.violate(p12, "cost_wrong_dst", format!("transition_cost({src:?}, {dst:?}, {dec:?}) but transition(src, d) = {expect:?}"), facts(k.saturating_sub(1)));
                        }
                    }
                }
                arc_cost.insert(key, *cost);
            }
            Ev::Merge { inputs, merged } => {
                stats.merges += 1;
                last_merge = Some((inputs, merged));
                if c12 {
                    if inputs.len() < 2 {
                        ctx.violate(p12, "merge_fewer_than_two", format!("merge called on {} state(s)", inputs.len()), facts(k.saturating_sub(1)));
                    }
                    if let Some(x) = inputs.iter().find(|s| !layer.contains(*s)) {
                        ctx.violate(p12, "merge_foreign_state", format!("merge input {x:?} is not a state of the current layer"), facts(k.saturating_sub(1)));
                    }
                }
            }
            Ev::Relax { src, dst, merged, dec, cost, rcost } => {
                stats.relax_calls += 1;
                if rcost != cost { nonid += 1; }
                if c12 {
                    let key = (src.clone(), dec.variable.0, dec.value);
                    let li = k.saturating_sub(1);
                    if !emitted.contains(&key) {
                        ctx.violate(p12, "relax_not_in_domain", format!("relax({src:?}, {dst:?}, {merged:?}, {dec:?}, {cost}): the decision is not in the domain of its variable at src"), facts(li));
                    } else {
                        let expect = ctx.problem.transition(src, *dec);
                        if &expect != dst {
                            ctx.violate(p12, "relax_wrong_dst", format!("relax({src:?}, {dst:?}, .., {dec:?}) but transition(src, d) = {expect:?}"), facts(li));
                        } else if !ambiguous.contains(&key) {
                            if let Some(c) = arc_cost.get(&key) {
                                if c != cost {
                                    ctx.violate(p12, "relax_wrong_cost", format!("relax({src:?}, {dst:?}, .., {dec:?}, cost={cost}) but the current cost of that arc is {c}"), facts(li));
                                }
                            }
                        }
                    }
                    match last_merge {
                        None => ctx.violate(p12, "relax_without_merge", format!("relax called with merged state {merged:?} but merge was not called for this layer"), facts(li)),
                        Some((inputs, m)) => {
                            if m != merged {
                                ctx.violate(p12, "relax_stale_merged", format!("relax called with merged state {merged:?} but the state just returned by merge is {m:?}"), facts(li));
                            }
                            if !inputs.contains(dst) {
                                ctx.violate(p12, "relax_dst_not_merged", format!("relax called with dst {dst:?} which is not among the states given to merge"), facts(li));
                            }
                        }
                    }
                }
                // the relaxed arc replaces the original one
                arc_cost.insert((src.clone(), dec.variable.0, dec.value), *rcost);
            }
        }
    }
    width_check(k, expansions, layer_len);
    // restricted: was any layer truncated ?
    stats.truncated = layers_over_width > 0 && ct == CompilationType::Restricted;
    ctx.bump("merge_calls", stats.merges as u64);
    ctx.bump("relax_calls", stats.relax_calls as u64);
    ctx.bump("relax_nonidentity_results", nonid);
    ctx.bump("layers", k as u64);
    ctx.bump("expansions", total_expansions);
    ctx.bump("not_impacted_answers", not_impacted);
    ctx.bump("layers_wider_than_max_width", layers_over_width);
    let h = || hash_of(&(ctx.ihash, ctx.dd_name, format!("{:?}", input.residual.state), input.residual.depth, input.residual.value, input.max_width, input.best_lb, ct_name(ct)));
    if c12 && stats.relax_calls > 0 { ctx.nontrivial(p12, h()); }
    if c13 && layers_over_width > 0 { ctx.nontrivial("C13", h()); }
    stats
}

// ---------------------------------------------------------------------------
// MonFringe
// ---------------------------------------------------------------------------
#[derive(Default)]
pub struct FringeStats {
    pub pushes: AtomicU64,
    pub pops: AtomicU64,
    pub clears: AtomicU64,
    pub max_len: AtomicU64,
    /// pops whose ub is larger than the ub of the previous pop (diagnostic)
    pub ub_increases: AtomicU64,
    /// pushes of a sub-problem that is identical (state, depth, value) to the sub-problem the pushing thread popped last
    pub self_requeues: AtomicU64,
    /// pushes of a sub-problem that is not strictly deeper than the sub-problem popped last (sequential only)
    pub non_progress: AtomicU64,
    pub livelock: AtomicBool,
    pub livelock_witness: Mutex<Option<String>>,
}
thread_local! {
    /// (hash(state, depth, value), depth) of the sub-problem popped last by the current thread
    static POPPED_BY_THIS_THREAD: std::cell::Cell<Option<(u64, usize)>> = const { std::cell::Cell::new(None) };
}
pub struct MonFringe<'a, S> {
    inner: Box<dyn Fringe<State = S> + Send + Sync + 'a>,
    stats: Arc<FringeStats>,
    abort: Arc<AtomicBool>,
    last_popped: Vec<(u64, usize)>, // (hash(state, depth, value), depth)
    requeue_count: HashMap<u64, u64>,
    last_ub: Option<isize>,
    sequential: bool,
    keep: usize,
    pub livelock_threshold: u64,
}
impl<'a, S: Hash + Debug> MonFringe<'a, S> {
    pub fn new(inner: Box<dyn Fringe<State = S> + Send + Sync + 'a>, stats: Arc<FringeStats>, abort: Arc<AtomicBool>, sequential: bool, workers: usize) -> Self {
        POPPED_BY_THIS_THREAD.with(|c| c.set(None));
        MonFringe { inner, stats, abort, last_popped: vec![], requeue_count: HashMap::new(), last_ub: None, sequential, keep: if sequential { 1 } else { 2 * workers.max(1) }, livelock_threshold: 200 }
    }
}
impl<S: Hash + Debug> Fringe for MonFringe<'_, S> {
    type State = S;
    fn push(&mut self, node: SubProblem<S>) {
        self.stats.pushes.fetch_add(1, AO::Relaxed);
        let h = hash_of(&(node.state.as_ref(), node.depth, node.value));
        // the sub-problem that the *pushing thread* popped last is the one it is processing: the pushes of its cut-set happen
        // on that very thread (sequential solver: the only thread; parallel solver: the worker that popped it)
        let mine = POPPED_BY_THIS_THREAD.with(|c| c.get());
        if let Some((x, d)) = mine {
            if x == h {
                self.stats.self_requeues.fetch_add(1, AO::Relaxed);
                let c = self.requeue_count.entry(h).or_insert(0);
                *c += 1;
                if *c >= self.livelock_threshold && !self.stats.livelock.swap(true, AO::SeqCst) {
                    *self.stats.livelock_witness.lock().unwrap() = Some(format!("sub-problem (state {:?}, depth {}, value {}) re-enqueued itself {} times while it was being processed", node.state, node.depth, node.value, *c));
                    self.abort.store(true, AO::SeqCst);
                }
            }
            if node.depth <= d { self.stats.non_progress.fetch_add(1, AO::Relaxed); }
        }
        if std::env::var("VH_TRACE").is_ok() { eprintln!("  [{:?}] PUSH state={:?} depth={} value={} ub={}", std::thread::current().id(), node.state, node.depth, node.value, node.ub); }
        self.inner.push(node);
        let len = self.inner.len() as u64;
        self.stats.max_len.fetch_max(len, AO::Relaxed);
    }
    fn pop(&mut self) -> Option<SubProblem<S>> {
        let r = self.inner.pop();
        if let Some(n) = &r {
            if std::env::var("VH_TRACE").is_ok() { eprintln!("  [{:?}] POP state={:?} depth={} value={} ub={}", std::thread::current().id(), n.state, n.depth, n.value, n.ub); }
            self.stats.pops.fetch_add(1, AO::Relaxed);
            if let Some(u) = self.last_ub { if n.ub > u { self.stats.ub_increases.fetch_add(1, AO::Relaxed); } }
            self.last_ub = Some(n.ub);
            let h = hash_of(&(n.state.as_ref(), n.depth, n.value));
            POPPED_BY_THIS_THREAD.with(|c| c.set(Some((h, n.depth))));
        }
        r
    }
    fn clear(&mut self) {
        self.stats.clears.fetch_add(1, AO::Relaxed);
        self.inner.clear()
    }
    fn len(&self) -> usize { self.inner.len() }
}

// ---------------------------------------------------------------------------
// MonCache
// ---------------------------------------------------------------------------
#[derive(Default)]
pub struct CacheStats {
    pub reads: AtomicU64,
    pub hits: AtomicU64,
    pub writes_explored: AtomicU64,
    pub writes_unexplored: AtomicU64,
    pub must_explore_calls: AtomicU64,
    pub must_explore_refusals: AtomicU64,
    /// longest run of consecutive refusals (stale nodes popped in a row)
    pub refusal_run: AtomicU64,
    pub max_refusal_run: AtomicU64,
    pub layer_clears: AtomicU64,
    pub clears: AtomicU64,
}
static CACHE_STATS: Mutex<Option<Arc<CacheStats>>> = Mutex::new(None);
pub fn set_cache_stats(s: Option<Arc<CacheStats>>) { *CACHE_STATS.lock().unwrap() = s; }

pub struct MonCache<C> {
    inner: C,
    stats: Option<Arc<CacheStats>>,
}
impl<C: Default> Default for MonCache<C> {
    fn default() -> Self { MonCache { inner: C::default(), stats: CACHE_STATS.lock().unwrap().clone() } }
}
impl<C: Cache> Cache for MonCache<C> {
    type State = C::State;
    fn must_explore(&self, subproblem: &SubProblem<Self::State>) -> bool {
        let r = self.inner.must_explore(subproblem);
        if let Some(s) = &self.stats {
            s.must_explore_calls.fetch_add(1, AO::Relaxed);
            if !r { s.must_explore_refusals.fetch_add(1, AO::Relaxed); let run = s.refusal_run.fetch_add(1, AO::Relaxed) + 1; s.max_refusal_run.fetch_max(run, AO::Relaxed); } else { s.refusal_run.store(0, AO::Relaxed); }
        }
        r
    }
    fn initialize(&mut self, problem: &dyn Problem<State = Self::State>) { self.inner.initialize(problem) }
    fn get_threshold(&self, state: &Self::State, depth: usize) -> Option<Threshold> {
        crate::sched::yield_point(crate::sched::Y_CACHE_READ);
        let r = self.inner.get_threshold(state, depth);
        if let Some(s) = &self.stats {
            s.reads.fetch_add(1, AO::Relaxed);
            if r.is_some() { s.hits.fetch_add(1, AO::Relaxed); }
        }
        r
    }
    fn update_threshold(&self, state: Arc<Self::State>, depth: usize, value: isize, explored: bool) {
        crate::sched::yield_point(crate::sched::Y_CACHE_WRITE);
        if let Some(s) = &self.stats {
            if explored { s.writes_explored.fetch_add(1, AO::Relaxed); } else { s.writes_unexplored.fetch_add(1, AO::Relaxed); }
        }
        self.inner.update_threshold(state, depth, value, explored)
    }
    fn clear_layer(&self, depth: usize) {
        if let Some(s) = &self.stats { s.layer_clears.fetch_add(1, AO::Relaxed); }
        self.inner.clear_layer(depth)
    }
    fn clear(&self) {
        if let Some(s) = &self.stats { s.clears.fetch_add(1, AO::Relaxed); }
        self.inner.clear()
    }
}

// ---------------------------------------------------------------------------
// CountingCutoff: the crash point generator
// ---------------------------------------------------------------------------
pub const MAX_POLLS: u64 = 150_000;
pub struct CountingCutoff {
    /// fires from poll number k on (0 = never)
    pub k: u64,
    pub polls: AtomicU64,
    pub fired: AtomicBool,
    pub abort: Arc<AtomicBool>,
}
impl CountingCutoff {
    pub fn new(k: u64, abort: Arc<AtomicBool>) -> Self { CountingCutoff { k, polls: AtomicU64::new(0), fired: AtomicBool::new(false), abort } }
}
impl Cutoff for CountingCutoff {
    fn must_stop(&self) -> bool {
        crate::sched::yield_point(crate::sched::Y_CUTOFF_POLL);
        let n = self.polls.fetch_add(1, AO::SeqCst) + 1;
        // logical step budget of every run (a tiny / small run polls a few thousand times at most): beyond it the run is
        // ended and judged inconclusive ("step budget exhausted without witness"), never a violation
        let stop = (self.k > 0 && n >= self.k) || n >= MAX_POLLS || self.abort.load(AO::SeqCst);
        if stop { self.fired.store(true, AO::SeqCst); }
        stop
    }
}
