//! Runs one real solver (sequential or parallel) on one instance under one
//! configuration, with all monitors attached, and collects what was observed.
use std::collections::{BTreeMap, HashSet};
use std::panic::{catch_unwind, AssertUnwindSafe};
use std::sync::atomic::{AtomicBool, Ordering as AO};
use std::sync::{Arc, Mutex};
use std::time::{Duration, Instant};

use ddo::*;

use crate::models::Fam;
use crate::monitor::*;
use crate::sched::{Sched, SchedReport, Strategy};
use crate::util::{path_from_json, path_json, J};

// ---------------------------------------------------------------------------
// panic attribution
// ---------------------------------------------------------------------------
#[derive(Clone, Debug)]
pub struct PanicRec { pub msg: String, pub file: String, pub line: u32 }
static PANICS: Mutex<Vec<PanicRec>> = Mutex::new(vec![]);
pub fn install_panic_hook() {
    std::panic::set_hook(Box::new(|info| {
        let msg = if let Some(s) = info.payload().downcast_ref::<&str>() { s.to_string() }
            else if let Some(s) = info.payload().downcast_ref::<String>() { s.clone() } else { "<non string panic>".to_string() };
        let (file, line) = info.location().map_or(("?".to_string(), 0), |l| (l.file().to_string(), l.line()));
        if let Ok(mut p) = PANICS.lock() { if p.len() < 100 { p.push(PanicRec { msg, file, line }); } }
    }));
}
pub fn take_panics() -> Vec<PanicRec> { std::mem::take(&mut *PANICS.lock().unwrap()) }
impl PanicRec {
    /// true when the panic originates from the library under test (or one of its dependencies)
    pub fn in_library(&self) -> bool {
        // anything that is not the harness itself: ddo (wherever its sources live), its dependencies, the standard library
        !(self.file.contains("/harness/src/") || self.file.starts_with("src/"))
    }
    pub fn json(&self) -> J { J::obj().set("msg", J::s(self.msg.clone())).set("file", J::s(self.file.clone())).set("line", J::i(self.line)) }
}

// ---------------------------------------------------------------------------
// configuration
// ---------------------------------------------------------------------------
#[derive(Clone, Copy, Debug, PartialEq, Eq, Hash)]
pub enum DdKind { Lel, Fc, Pooled }
impl DdKind {
    pub const ALL: [DdKind; 3] = [DdKind::Lel, DdKind::Fc, DdKind::Pooled];
    pub fn name(self) -> &'static str { match self { DdKind::Lel => "lel", DdKind::Fc => "frontier", DdKind::Pooled => "pooled" } }
    pub fn parse(s: &str) -> DdKind { match s { "lel" => DdKind::Lel, "frontier" => DdKind::Fc, _ => DdKind::Pooled } }
}
#[derive(Clone, Copy, Debug, PartialEq, Eq, Hash)]
pub enum FringeKind { Simple, NoDup }
#[derive(Clone, Copy, Debug, PartialEq, Eq, Hash)]
pub enum WidthKind { Fixed(usize), NbUnassigned, Times(usize, usize), DivBy(usize, usize) }
#[derive(Clone, Debug)]
pub enum ParMode {
    Free,
    Delay(u64),
    Sched { strategy: Strategy, budget: usize, poll_yields: bool, cache_yields: bool },
}
#[derive(Clone, Debug)]
pub struct Par { pub n0: usize, pub n1: Option<usize>, pub mode: ParMode }
#[derive(Clone, Debug)]
pub struct Cfg {
    pub dd: DdKind,
    pub cache: bool,
    pub fringe: FringeKind,
    pub width: WidthKind,
    pub par: Option<Par>,
    /// the cutoff fires from poll k on (0 = never)
    pub cutoff_k: u64,
    pub primal: Option<(isize, Vec<Decision>)>,
    /// online monitors to enable (bit i = property C<i>)
    pub monitors: u32,
    /// when the first call to maximize() was cut off, call it a second time on the same solver (the cutoff keeps answering
    /// 'stop'): the outcome then describes the state after the second call, `first_call` what the first one returned
    pub second_call: bool,
}
impl Cfg {
    pub fn seq(dd: DdKind, cache: bool, fringe: FringeKind, width: WidthKind) -> Cfg {
        Cfg { dd, cache, fringe, width, par: None, cutoff_k: 0, primal: None, monitors: 0, second_call: false }
    }
    pub fn json(&self) -> J {
        let mut j = J::obj()
            .set("dd", J::s(self.dd.name()))
            .set("cache", J::Bool(self.cache))
            .set("fringe", J::s(match self.fringe { FringeKind::Simple => "simple", FringeKind::NoDup => "nodup" }))
            .set("width", match self.width {
                WidthKind::Fixed(w) => J::Arr(vec![J::s("fixed"), J::i(w)]),
                WidthKind::NbUnassigned => J::Arr(vec![J::s("nbunassigned")]),
                WidthKind::Times(k, w) => J::Arr(vec![J::s("times"), J::i(k), J::i(w)]),
                WidthKind::DivBy(k, w) => J::Arr(vec![J::s("divby"), J::i(k), J::i(w)]),
            })
            .set("cutoff_k", J::i(self.cutoff_k));
        if self.second_call { j = j.set("second_call", J::Bool(true)); }
        if let Some((v, sol)) = &self.primal { j = j.set("primal", J::Arr(vec![J::isz(*v), path_json(sol)])); }
        if let Some(p) = &self.par {
            let mut pj = J::obj().set("n0", J::i(p.n0)).set("n1", p.n1.map_or(J::Null, J::i));
            pj = match &p.mode {
                ParMode::Free => pj.set("mode", J::s("free")),
                ParMode::Delay(s) => pj.set("mode", J::s("delay")).set("seed", J::Int(*s as i64)),
                ParMode::Sched { strategy, budget, poll_yields, cache_yields } => {
                    let pj = pj.set("mode", J::s("sched")).set("budget", J::i(*budget)).set("poll_yields", J::Bool(*poll_yields)).set("cache_yields", J::Bool(*cache_yields));
                    match strategy {
                        Strategy::Replay(l) => pj.set("strategy", J::s("replay")).set("grants", J::ints(l)),
                        Strategy::Prefix(l, rot) => pj.set("strategy", J::s(if *rot { "prefix-rotating" } else { "prefix-sticky" })).set("grants", J::ints(l)),
                        Strategy::Random(s) => pj.set("strategy", J::s("random")).set("seed", J::Int(*s as i64)),
                        Strategy::Pct { seed, d, est_len } => pj.set("strategy", J::s("pct")).set("seed", J::Int(*seed as i64)).set("d", J::i(*d)).set("est_len", J::i(*est_len)),
                    }
                }
            };
            j = j.set("par", pj);
        }
        j
    }
    pub fn from_json(j: &J) -> Cfg {
        let w = j.get("width").and_then(|w| w.as_arr()).cloned().unwrap_or_default();
        let wi = |i: usize| w.get(i).and_then(|x| x.as_i64()).unwrap_or(1) as usize;
        let width = match w.first().and_then(|x| x.as_str()).unwrap_or("fixed") {
            "nbunassigned" => WidthKind::NbUnassigned,
            "times" => WidthKind::Times(wi(1), wi(2)),
            "divby" => WidthKind::DivBy(wi(1), wi(2)),
            _ => WidthKind::Fixed(wi(1)),
        };
        let par = j.get("par").map(|p| {
            let ints = |k: &str| -> Vec<u8> { p.get(k).and_then(|a| a.as_arr()).map(|a| a.iter().filter_map(|x| x.as_i64()).map(|x| x as u8).collect()).unwrap_or_default() };
            let mode = match p.gets("mode").unwrap_or("free") {
                "delay" => ParMode::Delay(p.geti("seed").unwrap_or(1) as u64),
                "sched" => ParMode::Sched {
                    // a recorded schedule is always replayed from its list of grants
                    strategy: Strategy::Replay(ints("grants")),
                    budget: p.geti("budget").unwrap_or(200_000) as usize,
                    poll_yields: p.getb("poll_yields").unwrap_or(true),
                    cache_yields: p.getb("cache_yields").unwrap_or(false),
                },
                _ => ParMode::Free,
            };
            Par { n0: p.geti("n0").unwrap_or(1) as usize, n1: p.geti("n1").map(|x| x as usize), mode }
        });
        Cfg {
            dd: DdKind::parse(j.gets("dd").unwrap_or("lel")),
            cache: j.getb("cache").unwrap_or(false),
            fringe: if j.gets("fringe") == Some("nodup") { FringeKind::NoDup } else { FringeKind::Simple },
            width,
            par,
            cutoff_k: j.geti("cutoff_k").unwrap_or(0) as u64,
            primal: j.get("primal").and_then(|p| p.as_arr()).map(|a| (a[0].as_i64().unwrap_or(0) as isize, path_from_json(&a[1]))),
            monitors: 0,
            second_call: j.getb("second_call").unwrap_or(false),
        }
    }
}

/// counting wrapper around the dominance checker
struct MonDom<'a, S> { inner: &'a (dyn DominanceChecker<State = S> + Send + Sync), queries: std::sync::atomic::AtomicU64, dominated: std::sync::atomic::AtomicU64, restricted_queries: std::sync::atomic::AtomicU64 }
impl<S: std::fmt::Debug + Send + Sync + 'static> DominanceChecker for MonDom<'_, S> {
    type State = S;
    fn clear_layer(&self, depth: usize) { self.inner.clear_layer(depth) }
    fn is_dominated_or_insert(&self, state: Arc<S>, depth: usize, value: isize) -> DominanceCheckResult {
        let dbg = if std::env::var("VH_TRACE").is_ok() { Some(format!("{:?}", std::any::type_name::<S>())) } else { None };
        // the dominance store is shared by the workers: a yield point of the controlled scheduler (with the cache yields)
        crate::sched::yield_point(crate::sched::Y_DOMINANCE);
        let r = self.inner.is_dominated_or_insert(state.clone(), depth, value);
        if dbg.is_some() {
            let pot = crate::monitor::get_ctx::<S>().and_then(|c| c.oracle.hstar(state.as_ref(), depth)).map(|h| h + value);
            eprintln!("  dom query depth={depth} value={value} potential={pot:?} -> dominated={} thr={:?}  [state {:?}]", r.dominated, r.threshold, state);
        }
        self.queries.fetch_add(1, AO::Relaxed);
        if crate::monitor::IN_RESTRICTED.with(|c| c.get()) { self.restricted_queries.fetch_add(1, AO::Relaxed); }
        if r.dominated { self.dominated.fetch_add(1, AO::Relaxed); }
        r
    }
    fn cmp(&self, a: &S, val_a: isize, b: &S, val_b: isize) -> std::cmp::Ordering { self.inner.cmp(a, val_a, b, val_b) }
}

struct WidthBox(WidthKind, usize);
impl<S> WidthHeuristic<S> for WidthBox {
    fn max_width(&self, x: &SubProblem<S>) -> usize {
        match self.0 {
            WidthKind::Fixed(w) => FixedWidth(w).max_width(x),
            WidthKind::NbUnassigned => NbUnassignedWidth(self.1).max_width(x),
            WidthKind::Times(k, w) => Times(k, FixedWidth(w)).max_width(x),
            WidthKind::DivBy(k, w) => DivBy(k, NbUnassignedWidth(w.max(self.1))).max_width(x),
        }
    }
}

// ---------------------------------------------------------------------------
// outcome
// ---------------------------------------------------------------------------
#[derive(Clone, Debug, Default)]
pub struct Snap { pub pushes: u64, pub pops: u64, pub max_len: u64, pub ub_increases: u64, pub self_requeues: u64, pub non_progress: u64, pub clears: u64 }
#[derive(Clone, Debug, Default)]
pub struct CSnap { pub reads: u64, pub hits: u64, pub writes_explored: u64, pub writes_unexplored: u64, pub must_explore_calls: u64, pub must_explore_refusals: u64, pub layer_clears: u64, pub max_refusal_run: u64 }

#[derive(Clone, Debug, Default)]
pub struct Outcome {
    /// None when maximize() did not return normally
    pub completion: Option<(bool, Option<isize>)>,
    pub best_value: Option<isize>,
    pub best_solution: Option<Vec<Decision>>,
    pub lb: isize,
    pub ub: isize,
    pub gap: f32,
    pub explored: usize,
    pub polls: u64,
    pub cutoff_fired: bool,
    pub panics: Vec<PanicRec>,
    pub livelock: Option<String>,
    pub fringe: Snap,
    pub cache: CSnap,
    pub violations: Vec<Violation>,
    pub counters: BTreeMap<&'static str, u64>,
    pub nontrivial: BTreeMap<&'static str, HashSet<u64>>,
    pub sched: Option<SchedReport>,
    pub watchdog_deadlock: bool,
    pub dom_queries: u64,
    pub dom_pruned: u64,
    /// dominance queries issued while the querying thread was inside a restricted compilation
    pub dom_queries_restricted: u64,
    pub wall: Duration,
    /// (is_exact, value, lb, ub) of the first call when a second call to maximize() was made
    pub first_call: Option<(bool, Option<isize>, isize, isize)>,
}
impl Outcome {
    pub fn counter(&self, k: &str) -> u64 { self.counters.iter().find(|(n, _)| **n == k).map_or(0, |(_, v)| *v) }
    pub fn lib_panic(&self) -> Option<&PanicRec> { self.panics.iter().find(|p| p.in_library()) }
    pub fn harness_panic(&self) -> Option<&PanicRec> { self.panics.iter().find(|p| !p.in_library()) }
    pub fn json(&self) -> J {
        J::obj()
            .set("completion", self.completion.map_or(J::Null, |(e, v)| J::obj().set("is_exact", J::Bool(e)).set("best_value", v.map_or(J::Null, J::isz))))
            .set("best_value", self.best_value.map_or(J::Null, J::isz))
            .set("best_solution", self.best_solution.as_ref().map_or(J::Null, |s| path_json(s)))
            .set("best_lower_bound", J::isz(self.lb)).set("best_upper_bound", J::isz(self.ub))
            .set("explored", J::i(self.explored)).set("cutoff_polls", J::i(self.polls)).set("cutoff_fired", J::Bool(self.cutoff_fired))
            .set("panics", J::Arr(self.panics.iter().map(|p| p.json()).collect()))
            .set("livelock", self.livelock.clone().map_or(J::Null, J::s))
            .set("first_call", self.first_call.map_or(J::Null, |(e, v, lb, ub)| J::obj().set("is_exact", J::Bool(e)).set("best_value", v.map_or(J::Null, J::isz)).set("best_lower_bound", J::isz(lb)).set("best_upper_bound", J::isz(ub))))
    }
}

/// What the scheduler does when it reaches its deadlock state, or the /proc watchdog fires: the
/// process cannot go on (threads are stuck for ever), so the callback flushes the shard and exits.
pub type DeadlockHandler = Arc<dyn Fn(&str, Option<&SchedReport>) + Send + Sync>;
static DEADLOCK_HANDLER: Mutex<Option<DeadlockHandler>> = Mutex::new(None);
pub fn set_deadlock_handler(h: Option<DeadlockHandler>) { *DEADLOCK_HANDLER.lock().unwrap() = h; }
fn fire_deadlock(msg: &str, rep: Option<&SchedReport>) {
    let h = DEADLOCK_HANDLER.lock().unwrap().clone();
    if let Some(h) = h { h(msg, rep); }
    eprintln!("deadlock without handler: {msg}");
    std::process::exit(3);
}

/// /proc based quiescence test: every task but the caller is asleep
fn all_tasks_asleep() -> Option<(bool, u64)> {
    let me = std::fs::read_link("/proc/thread-self").ok()?;
    let me = me.file_name()?.to_str()?.to_string();
    let mut asleep = true;
    let mut ticks = 0u64;
    for e in std::fs::read_dir("/proc/self/task").ok()? {
        let e = e.ok()?;
        let tid = e.file_name().to_str()?.to_string();
        let stat = match std::fs::read_to_string(e.path().join("stat")) { Ok(s) => s, Err(_) => continue };
        let rest = &stat[stat.rfind(')')? + 2..];
        let f: Vec<&str> = rest.split(' ').collect();
        // f[0] = state, f[11] = utime, f[12] = stime
        ticks += f.get(11)?.parse::<u64>().ok()? + f.get(12)?.parse::<u64>().ok()?;
        if tid != me && f[0] != "S" { asleep = false; }
    }
    Some((asleep, ticks))
}

/// runs `f` (a call to maximize of a parallel solver) on a helper thread and watches for a deadlock
fn with_watchdog<R: Send>(f: impl FnOnce() -> R + Send) -> R {
    // the interpreter is single threaded and /proc is meaningless there
    if cfg!(miri) { return f(); }
    std::thread::scope(|s| {
        let h = s.spawn(f);
        let start = Instant::now();
        let mut quiet_since: Option<(Instant, u64)> = None;
        let mut spins = 0u32;
        while !h.is_finished() {
            spins += 1;
            if spins < 2000 { std::thread::yield_now(); continue; }
            std::thread::sleep(Duration::from_millis(if start.elapsed() < Duration::from_millis(50) { 1 } else { 20 }));
            if start.elapsed() > Duration::from_millis(300) {
                match all_tasks_asleep() {
                    Some((true, ticks)) => match quiet_since {
                        Some((t, tk)) if tk == ticks => {
                            if t.elapsed() > Duration::from_secs(3) {
                                fire_deadlock("free-running threads: every task asleep and no CPU tick consumed during 3 s before maximize() returned", None);
                            }
                        }
                        _ => quiet_since = Some((Instant::now(), ticks)),
                    },
                    _ => quiet_since = None,
                }
            }
        }
        h.join().unwrap()
    })
}

// ---------------------------------------------------------------------------
// the runner
// ---------------------------------------------------------------------------
pub fn run_solver<F: Fam>(inst: &Arc<F>, cfg: &Cfg) -> Outcome {
    let t0 = Instant::now();
    let relax = inst.mk_relax();
    let rank = inst.mk_rank();
    let dom_box = inst.mk_dominance();
    let empty_dom = EmptyDominanceChecker::<F::S>::default();
    let isolated = !cfg.cache && dom_box.is_none();
    let dom_inner: &(dyn DominanceChecker<State = F::S> + Send + Sync) = match &dom_box { Some(b) => b.as_ref(), None => &empty_dom };
    let mon_dom = MonDom { inner: dom_inner, queries: Default::default(), dominated: Default::default(), restricted_queries: Default::default() };
    let dom: &(dyn DominanceChecker<State = F::S> + Send + Sync) = &mon_dom;
    let width = WidthBox(cfg.width, inst.nb_variables());
    let abort = Arc::new(AtomicBool::new(false));
    let cutoff = CountingCutoff::new(cfg.cutoff_k, abort.clone());
    let fstats = Arc::new(FringeStats::default());
    let cstats = Arc::new(CacheStats::default());
    set_cache_stats(Some(cstats.clone()));
    let ctx = Arc::new(MonCtx::<F::S>::new(inst.clone(), inst.clone(), cfg.monitors, isolated, inst.ihash(), cfg.dd.name()));
    set_ctx(Some(ctx.clone()));
    let workers = cfg.par.as_ref().map_or(1, |p| p.n1.unwrap_or(p.n0));
    let inner: Box<dyn Fringe<State = F::S> + Send + Sync + '_> = match cfg.fringe {
        FringeKind::Simple => Box::new(SimpleFringe::new(MaxUB::new(&rank))),
        FringeKind::NoDup => Box::new(NoDupFringe::new(MaxUB::new(&rank))),
    };
    let mut fringe = MonFringe::new(inner, fstats.clone(), abort.clone(), cfg.par.is_none(), workers);
    let _ = take_panics();
    let mut out = Outcome::default();

    macro_rules! collect {
        ($solver:expr, $res:expr) => {{
            match $res {
                Ok(c) => { out.completion = Some((c.is_exact, c.best_value)); }
                Err(_) => { out.completion = None; }
            }
            // the accessors are read even after a crash: they only lock and copy
            if let Ok(()) = catch_unwind(AssertUnwindSafe(|| {
                out.best_value = $solver.best_value();
                out.best_solution = $solver.best_solution();
                out.lb = $solver.best_lower_bound();
                out.ub = $solver.best_upper_bound();
                out.gap = $solver.gap();
                out.explored = $solver.explored();
            })) {}
        }};
    }
    macro_rules! seq {
        ($d:ty, $c:ty) => {{
            let mut solver = SequentialSolver::<F::S, MonDD<$d>, MonCache<$c>>::custom(inst.as_ref(), &relax, &rank, &width, dom, &cutoff, &mut fringe);
            if let Some((v, sol)) = &cfg.primal { solver.set_primal(*v, sol.clone()); }
            let mut res = catch_unwind(AssertUnwindSafe(|| solver.maximize()));
            if cfg.second_call && cutoff.fired.load(AO::SeqCst) {
                if let Ok(c) = &res {
                    out.first_call = Some((c.is_exact, c.best_value, solver.best_lower_bound(), solver.best_upper_bound()));
                    res = catch_unwind(AssertUnwindSafe(|| solver.maximize()));
                }
            }
            collect!(solver, res);
        }};
    }
    macro_rules! par {
        ($d:ty, $c:ty, $p:expr) => {{
            let p: &Par = $p;
            let mut solver = ParallelSolver::<F::S, MonDD<$d>, MonCache<$c>>::custom(inst.as_ref(), &relax, &rank, &width, dom, &cutoff, &mut fringe, p.n0);
            if let Some(n1) = p.n1 { solver = solver.with_nb_threads(n1); }
            if let Some((v, sol)) = &cfg.primal { solver.set_primal(*v, sol.clone()); }
            let mut res = match &p.mode {
                ParMode::Sched { strategy, budget, poll_yields, cache_yields } => {
                    let sched = Sched::new(workers, strategy.clone(), *budget, *poll_yields, *cache_yields, abort.clone());
                    sched.set_on_deadlock(Box::new(|rep: &SchedReport| fire_deadlock(rep.deadlock.as_deref().unwrap_or("deadlock"), Some(rep))));
                    sched.activate();
                    let r = catch_unwind(AssertUnwindSafe(|| solver.maximize()));
                    out.sched = Sched::deactivate();
                    r
                }
                ParMode::Delay(seed) => {
                    crate::sched::set_delay_mode(Some(*seed));
                    let r = with_watchdog(|| catch_unwind(AssertUnwindSafe(|| solver.maximize())));
                    crate::sched::set_delay_mode(None);
                    r
                }
                ParMode::Free => with_watchdog(|| catch_unwind(AssertUnwindSafe(|| solver.maximize()))),
            };
            // second call: free running (the controlled schedule ended with the first call)
            if cfg.second_call && cutoff.fired.load(AO::SeqCst) && out.sched.as_ref().map_or(true, |r| r.deadlock.is_none() && r.crashed.is_empty()) {
                if let Ok(c) = &res {
                    out.first_call = Some((c.is_exact, c.best_value, solver.best_lower_bound(), solver.best_upper_bound()));
                    res = with_watchdog(|| catch_unwind(AssertUnwindSafe(|| solver.maximize())));
                }
            }
            collect!(solver, res);
        }};
    }
    type Lel<S> = Mdd<S, { LAST_EXACT_LAYER }>;
    type Fc<S> = Mdd<S, { FRONTIER }>;
    match (&cfg.par, cfg.dd, cfg.cache) {
        (None, DdKind::Lel, false) => seq!(Lel<F::S>, EmptyCache<F::S>),
        (None, DdKind::Lel, true) => seq!(Lel<F::S>, SimpleCache<F::S>),
        (None, DdKind::Fc, false) => seq!(Fc<F::S>, EmptyCache<F::S>),
        (None, DdKind::Fc, true) => seq!(Fc<F::S>, SimpleCache<F::S>),
        (None, DdKind::Pooled, false) => seq!(Pooled<F::S>, EmptyCache<F::S>),
        (None, DdKind::Pooled, true) => seq!(Pooled<F::S>, SimpleCache<F::S>),
        (Some(p), DdKind::Lel, false) => par!(Lel<F::S>, EmptyCache<F::S>, p),
        (Some(p), DdKind::Lel, true) => par!(Lel<F::S>, SimpleCache<F::S>, p),
        (Some(p), DdKind::Fc, false) => par!(Fc<F::S>, EmptyCache<F::S>, p),
        (Some(p), DdKind::Fc, true) => par!(Fc<F::S>, SimpleCache<F::S>, p),
        (Some(p), DdKind::Pooled, false) => par!(Pooled<F::S>, EmptyCache<F::S>, p),
        (Some(p), DdKind::Pooled, true) => par!(Pooled<F::S>, SimpleCache<F::S>, p),
    }
    set_ctx::<F::S>(None);
    set_cache_stats(None);
    out.polls = cutoff.polls.load(AO::SeqCst);
    out.dom_queries = mon_dom.queries.load(AO::Relaxed);
    out.dom_pruned = mon_dom.dominated.load(AO::Relaxed);
    out.dom_queries_restricted = mon_dom.restricted_queries.load(AO::Relaxed);
    out.cutoff_fired = cutoff.fired.load(AO::SeqCst);
    out.panics = take_panics();
    if fstats.livelock.load(AO::SeqCst) { out.livelock = fstats.livelock_witness.lock().unwrap().clone(); }
    out.fringe = Snap {
        pushes: fstats.pushes.load(AO::Relaxed), pops: fstats.pops.load(AO::Relaxed), max_len: fstats.max_len.load(AO::Relaxed),
        ub_increases: fstats.ub_increases.load(AO::Relaxed), self_requeues: fstats.self_requeues.load(AO::Relaxed),
        non_progress: fstats.non_progress.load(AO::Relaxed), clears: fstats.clears.load(AO::Relaxed),
    };
    out.cache = CSnap {
        reads: cstats.reads.load(AO::Relaxed), hits: cstats.hits.load(AO::Relaxed), writes_explored: cstats.writes_explored.load(AO::Relaxed),
        writes_unexplored: cstats.writes_unexplored.load(AO::Relaxed), must_explore_calls: cstats.must_explore_calls.load(AO::Relaxed),
        must_explore_refusals: cstats.must_explore_refusals.load(AO::Relaxed), layer_clears: cstats.layer_clears.load(AO::Relaxed), max_refusal_run: cstats.max_refusal_run.load(AO::Relaxed),
    };
    out.violations = std::mem::take(&mut *ctx.violations.lock().unwrap());
    out.counters = std::mem::take(&mut *ctx.counters.lock().unwrap());
    out.nontrivial = std::mem::take(&mut *ctx.nontrivial.lock().unwrap());
    out.wall = t0.elapsed();
    out
}

/// Model-side validation of the reported solution (used by several checks).
/// Returns a list of (clause, message).
pub fn check_solution<F: Fam>(inst: &F, out: &Outcome) -> Vec<(&'static str, String)> {
    let mut v = vec![];
    let (is_exact, cval) = match out.completion { Some(c) => c, None => return v };
    if out.best_value.is_some() != out.best_solution.is_some() {
        v.push(("value_iff_solution", format!("best_value() = {:?} but best_solution() is {}", out.best_value, if out.best_solution.is_some() { "present" } else { "absent" })));
    }
    if cval != out.best_value {
        v.push(("completion_value", format!("Completion.best_value = {cval:?} but best_value() = {:?}", out.best_value)));
    }
    if let Some(val) = out.best_value {
        if val != out.lb { v.push(("value_eq_lower_bound", format!("best_value() = {val} but best_lower_bound() = {}", out.lb))); }
        if let Some(sol) = &out.best_solution {
            match inst.replay(sol, None) {
                Err(msg) => v.push(("solution_infeasible", format!("best_solution() [{}] is infeasible: {msg}", crate::util::fmt_path(sol)))),
                Ok(r) => if r.value != val { v.push(("solution_value", format!("best_solution() [{}] replays to {} but {val} is reported", crate::util::fmt_path(sol), r.value))); },
            }
        }
        if is_exact && out.ub != val {
            v.push(("upper_bound_after_complete_run", format!("uninterrupted run: best_upper_bound() = {} but best_value() = {val}", out.ub)));
        }
    }
    v
}
