#!/usr/bin/env python3
"""Regenerates the table of DESIGN.md §8.6 (seeded changes: what, what it needs, which check caught it) from
seeded/*/meta.json and validation/results.json. The prose of §8.6 is hand written; only the table rows are replaced."""
import glob, json, os, re

V = os.path.dirname(os.path.abspath(__file__))
res = json.load(open(os.path.join(V, "validation", "results.json")))

def clean(t, n):
    t = " ".join(str(t).replace("|", "/").split())
    return t if len(t) <= n else t[: n - 1].rstrip() + "…"

def key(d):
    m = re.match(r"C(\d+)-m(\d+)", os.path.basename(d))
    return (int(m.group(1)), int(m.group(2)))

rows, detected, total, missed = [], 0, 0, []
for d in sorted(glob.glob(os.path.join(V, "seeded", "C*-m*")), key=key):
    mid = os.path.basename(d)
    meta = json.load(open(os.path.join(d, "meta.json")))
    r = res.get(mid, {}).get("checks", {})
    caught = []
    own = False
    for c in sorted(r):
        e = r[c]
        if e.get("detected"):
            caught.append(f"{c}: " + ", ".join(f"`{x}`" for x in e.get("clauses", [])) + f" ({e.get('wall_s', 0):.0f} s)")
            if c.split("@")[0] == meta["property"]:
                own = True
    total += 1
    if own:
        detected += 1
    else:
        missed.append(mid)
    rows.append(f"| {mid} | {clean(meta.get('summary', ''), 212)} | {clean(meta.get('needs_to_manifest', ''), 172)} | {'; '.join(caught) if caught else '**missed**'} |")

p = os.path.join(V, "DESIGN.md")
s = open(p).read()
head = "| id | change | needs | caught by (clauses, time) |\n|----|--------|-------|---------------------------|\n"
i = s.index(head) + len(head)
j = s.index("\n\n", i)
s = s[:i] + "\n".join(rows) + s[j:]
open(p, "w").write(s)
print(f"{detected} of {total} detected by the check of their own property; missed: {missed}")
