#!/usr/bin/env python3
"""Regenerates MANIFEST.json from checkspec.py (single source of truth for what is claimed)."""
import json, os, sys
sys.path.insert(0, os.path.dirname(os.path.abspath(__file__)))
from checkspec import CHECKS, NOT_APPLICABLE, ENGINES, HOOK_COMMITS

_kf = json.load(open(os.path.join(os.path.dirname(os.path.abspath(__file__)), "known_findings.json")))
FIXES = ", ".join(f"{l.split()[2]} ({l.split()[1].split('=')[1]})" for l in _kf["fixed"])
OPEN = ", ".join(f["id"] for f in _kf["findings"] if f.get("status") == "open") or "none"
checks = []
for pid in sorted(CHECKS):
    c = CHECKS[pid]
    e = {
        "property_id": pid,
        "quick_cmd": f"./check {pid} --tier quick",
        "thorough_cmd": f"./check {pid} --tier thorough",
        "evidence_file": f"/verif/evidence/{pid}.json",
        "replay_cmd_template": f"./check {pid} --replay {{path}}",
        "engine": c["engine_name"],
        "level_claimed": {"category": c["level"], "text": c["level_text"], "design_ref": c["design_ref"]},
        "level_note": c["level_note"],
        "technique": c["technique"],
    }
    checks.append(e)
manifest = {
    "version": 1,
    "setup_cmd": "./check --setup",
    "hooks": {
        "guard": "cargo feature `xgillard_ddo_verif` of crate ddo (off by default)",
        "enable": "the harness crate /verif/harness depends on ddo = { path = \"/repo/ddo\", features = [\"xgillard_ddo_verif\"] }; ./check rebuilds it (cargo build --offline) from /repo's current working tree before every campaign; the example binaries of C16 are built without the feature",
        "baseline_off_cmd": "cd /repo && cargo test --workspace --no-fail-fast --offline",
        "source_commits": HOOK_COMMITS,
        "add_only": True,
    },
    "engines": ENGINES,
    "checks": checks,
    "not_applicable": NOT_APPLICABLE,
    "notes": "Technique family: runtime monitoring and sanitizers. Every verdict is produced by an oracle observing executions of the real ddo code built from /repo's working tree. Exit codes of ./check: 0 held on everything explored (KNOWN-FINDING lines allowed), 1 VIOLATION, 2 harness error / nothing non-trivial observed. Known findings: /verif/known_findings.json (open: " + OPEN + "). fix: commits in /repo: " + FIXES + ".",
}
json.dump(manifest, open(os.path.join(os.path.dirname(os.path.abspath(__file__)), "MANIFEST.json"), "w"), indent=1)
print("MANIFEST.json:", len(checks), "checks,", len(NOT_APPLICABLE), "not applicable")
