"""./check --setup : cold-builds everything the checks need, offline, from files on disk."""
import os, subprocess, sys, time

VERIF = os.path.dirname(os.path.abspath(__file__))
ENV = dict(os.environ, CARGO_NET_OFFLINE="true", CARGO_TERM_COLOR="never")


def main():
    for d in ("work", "evidence", "replays", "target"):
        os.makedirs(os.path.join(VERIF, d), exist_ok=True)
    rc = 0
    for flags in ([], ["--release"]):
        t0 = time.time()
        r = subprocess.run(["cargo", "build", "--offline"] + flags, cwd=os.path.join(VERIF, "harness"), env=dict(ENV, CARGO_TARGET_DIR=os.path.join(VERIF, "target")),
                           stdout=subprocess.PIPE, stderr=subprocess.STDOUT, text=True)
        print(f"harness build {flags}: rc={r.returncode} {time.time()-t0:.1f}s")
        if r.returncode != 0:
            print(r.stdout[-4000:])
            rc = 2
    # the example binaries of C16 (release, feature off), built from /repo's working tree
    try:
        sys.path.insert(0, os.path.join(VERIF, "exlab"))
        import exlab
        t0 = time.time()
        ok, _dt = exlab.build()
        print(f"example binaries: {'ok' if ok else 'FAILED'} {time.time()-t0:.1f}s")
        if not ok:
            rc = 2
    except Exception as e:  # noqa
        print("example build failed:", e)
        rc = 2
    return rc


if __name__ == "__main__":
    sys.exit(main())
