#!/usr/bin/env python3
"""Confirms a change written by a sub-agent (it compiles, the 176 tests pass with it, its demonstration fails with it and
passes without it) in a fresh scratch worktree of /repo, then stores it as /verif/seeded/<id>/.
usage: ingest_mutant.py /tmp/mut_Cxx/MUTANTn <id>"""
import json, os, shutil, subprocess, sys, glob

def sh(cmd, cwd=None, timeout=1800):
    r = subprocess.run(cmd, shell=True, cwd=cwd, text=True, stdout=subprocess.PIPE, stderr=subprocess.STDOUT, timeout=timeout, env=dict(os.environ, CARGO_NET_OFFLINE="true"))
    return r.returncode, r.stdout

def main():
    src, mid = sys.argv[1], sys.argv[2]
    meta = json.load(open(os.path.join(src, "meta.json")))
    wt = f"/tmp/ing_{mid}"
    sh(f"git -C /repo worktree remove --force {wt}")
    rc, out = sh(f"git -C /repo worktree add -q --detach {wt} HEAD")
    assert rc == 0, out
    demos = [f for f in glob.glob(os.path.join(src, "demo*")) ]
    place = meta["demo_placement"].split()[0]
    dst = os.path.join(wt, place)
    os.makedirs(os.path.dirname(dst), exist_ok=True)
    # the demo file named in the placement (first demo.* by default)
    shutil.copy(demos[0], dst)
    # some demo commands copy the demo from the MUTANTn directory themselves
    shutil.copytree(src, os.path.join(wt, os.path.basename(src.rstrip("/"))), dirs_exist_ok=True)
    cmd = meta["demo_command"].replace(os.path.dirname(os.path.dirname(src.rstrip("/"))) if False else "/tmp/mut_" + meta["property"], wt)
    cmd = cmd.replace("<repo root>", wt).replace("/tmp/mut2_" + meta["property"], wt)
    root = os.path.dirname(src.rstrip("/"))
    cmd = cmd.replace(root, wt)
    cwd = wt
    res = {"demo_command": cmd}
    rc0, out0 = sh(cmd, cwd=cwd)
    res["demo_passes_without_change"] = rc0 == 0
    os.remove(dst)  # the existing suite is run without the demonstration in place
    rc, out = sh(f"git apply {os.path.join(src, 'patch.diff')}", cwd=wt)
    res["patch_applies"] = rc == 0
    if rc == 0:
        rc, out = sh("cargo test --workspace --no-fail-fast --offline 2>&1 | grep -E '^test result|FAILED|error(\\[|:)' | head -8", cwd=wt)
        res["test_suite"] = out.strip().splitlines()
        res["tests_pass_with_change"] = ("176 passed; 0 failed" in out) and ("FAILED" not in out) and ("error" not in out) and ("20 passed; 0 failed" in out)
        shutil.copy(demos[0], dst)
        rc1, out1 = sh(cmd, cwd=cwd)
        res["demo_fails_with_change"] = rc1 != 0
        res["demo_failure_tail"] = out1.strip().splitlines()[-6:]
    ok = res.get("demo_passes_without_change") and res.get("patch_applies") and res.get("tests_pass_with_change") and res.get("demo_fails_with_change")
    print(json.dumps(res, indent=1))
    if ok:
        d = os.path.join("/verif/seeded", mid)
        os.makedirs(d, exist_ok=True)
        shutil.copy(os.path.join(src, "patch.diff"), d)
        for f in demos:
            shutil.copy(f, d)
        meta["confirmed_by_me"] = res
        meta["checks"] = [meta["property"]]
        json.dump(meta, open(os.path.join(d, "meta.json"), "w"), indent=1)
        print("KEPT as", d)
    else:
        print("NOT KEPT")
    sh(f"git -C /repo worktree remove --force {wt}")
    return 0 if ok else 1

if __name__ == "__main__":
    sys.exit(main())
